------------------------------ MODULE Supervisor ------------------------------
(***************************************************************************)
(* The supervision tree of node/pkg/supervisor (property C18).             *)
(*                                                                         *)
(* Grain: one action per critical section of the code.                     *)
(*   supervisor side (the single `processor` goroutine, each under s.mu):  *)
(*     Schedule(n)      processSchedule: spawn the goroutine of n          *)
(*     ProcessDied(n)   processDied: record the result of a returned       *)
(*                      runnable (DONE+nil: leave; context error of a      *)
(*                      cancelled context: CANCELED; anything else: DEAD,  *)
(*                      cancel own context and the group siblings')        *)
(*     GC               processGC: restart the largest subtrees that want  *)
(*                      a restart, are ready (every node DONE / DEAD /     *)
(*                      CANCELED with its runnable returned and recorded)  *)
(*                      and whose parent context is live; back-off only    *)
(*                      for DEAD                                           *)
(*     BackoffElapsed(n) the sleeping reschedule goroutine wakes up        *)
(*     ProcessKill      the processor sees its own context cancelled:      *)
(*                      cancels every node and exits                       *)
(*   service side (the runnable's goroutine; API calls take s.mu):         *)
(*     SvcEnter(n)      the runnable starts executing                      *)
(*     SvcRunGroup(n,G) supervisor.Run / RunGroup                          *)
(*     SvcHealthy(n), SvcDone(n)   supervisor.Signal                       *)
(*     SvcSawCancel(n)  the runnable observes ctx.Done()                   *)
(*     SvcExit(n,k)     the runnable returns (k = "err" | "nil" | "ctxErr" |*)
(*                      "canceled" | "wrapcanceled" | "deadline": errors   *)
(*                      that merely LOOK like a cancellation) or panics    *)
(*                      with panic capture on (k = "panic")                *)
(*     SvcBadSignal(n,sg) the runnable makes a lifecycle mistake: it calls  *)
(*                      Signal(Healthy) when the node is not NEW (Healthy   *)
(*                      twice, Healthy after Done) or Signal(Done) when it  *)
(*                      is not HEALTHY (Done before Healthy, Done twice).   *)
(*                      node.signal panics; the deferred unlock releases    *)
(*                      s.mu, the runnable's wrapper captures the panic:    *)
(*                      the node state is untouched and the runnable is     *)
(*                      gone, a death by panic like any other               *)
(*   environment: Kill  cancel the context given to supervisor.New         *)
(*                                                                         *)
(* The specification describes the behaviour property C18 requires.  It   *)
(* is a transcription of the three process* functions except where the     *)
(* property demands more than they do:                                     *)
(*  1. a DONE node counts as restartable only once its runnable has        *)
(*     returned and that return has been processed (pc = "reaped"): "two   *)
(*     instances never run at once", and a death notice must never reach   *)
(*     a node that was re-initialised in between;                          *)
(*  2. a group sibling that already signalled Done is left alone when a    *)
(*     member dies (its context is not cancelled), and a member that was   *)
(*     cancelled and signalled Done only afterwards wants a restart like   *)
(*     a CANCELED one: otherwise everything below it stays cancelled for   *)
(*     good although "the service is started again ... for as long as the  *)
(*     supervisor's context is live".                                      *)
(* Back-off durations are not modelled (BackoffElapsed is untimed): the    *)
(* harness bounds them with a deadline.                                    *)
(*                                                                         *)
(* The tree shape arrives as data (variable `shape`, fixed after Init /    *)
(* trace Reset): MC_Supervisor starts from every shape of a finite family, *)
(* Trace_Supervisor binds it from the recorded run.                        *)
(*   shape.nodes  set of distinguished names                               *)
(*   shape.par    [node -> node | Nil]                                     *)
(*   shape.grp    [node -> set of nodes]  its supervision group (incl. itself) *)
(*   shape.kids   [node -> sequence of groups] in the order the runnable   *)
(*                runs them                                                *)
(***************************************************************************)
EXTENDS Naturals, Sequences, FiniteSets, TLC

CONSTANT Nil

VARIABLES
  shape,
  st,        \* [node -> "ABSENT" | "NEW" | "HEALTHY" | "DEAD" | "DONE" | "CANCELED"]  node.state; ABSENT = no such node in the tree
  own,       \* [node -> BOOLEAN]  the cancel func of the node's current context has not been called
  pc,        \* [node -> "none" | "spawned" | "run" | "doneret" | "exited" | "reaped"]  goroutine of the node's current incarnation
  res,       \* [node -> result kind of the returned runnable] (meaningful when pc = "exited")
  todo,      \* [node -> index of the next group the running instance will start]
  sawc,      \* [node -> BOOLEAN] the running instance has observed its cancelled context
  sched,     \* [node -> "none" | "backoff" | "ready"]  schedule request: none / sleeping in back-off / blocked on the request channel
  running,   \* [node -> Nat]  instances of the runnable spawned and not yet returned
  supLive,   \* the context passed to supervisor.New is live
  procUp,    \* the processor goroutine is still in its loop
  dirty      \* processor's `!clean`

vars == <<shape, st, own, pc, res, todo, sawc, sched, running, supLive, procUp, dirty>>

Nodes == shape.nodes
Root == CHOOSE n \in Nodes : shape.par[n] = Nil

RECURSIVE Anc(_)
Anc(n) == IF shape.par[n] = Nil THEN {} ELSE {shape.par[n]} \cup Anc(shape.par[n])
Desc(n) == {m \in Nodes : n \in Anc(m)}
Kids(n) == {m \in Nodes : shape.par[m] = n}

\* ctx.Err() == nil for the context of node n (contexts are derived from the parent's)
Live(n) == own[n] /\ \A a \in Anc(n) : own[a]
ParentLive(n) == shape.par[n] = Nil \/ Live(shape.par[n])

Exists(n) == st[n] # "ABSENT"
\* result kinds of a runnable.  "ctxErr": it returns ctx.Err() of its own context after seeing it cancelled.
\* "canceled" / "wrapcanceled" / "deadline": it returns context.Canceled, an error wrapping context.Canceled, or
\* context.DeadlineExceeded that do NOT come from its supervisor context (a sub-context of its own, another context).
SpontaneousKinds == {"err", "nil", "panic", "canceled", "wrapcanceled", "deadline"}
\* "badhealthy" / "baddone": the panic of a refused Signal(Healthy) / Signal(Done) (SvcBadSignal); for the processor it
\* is an error like "panic"
BadSignalKinds == {"badhealthy", "baddone"}
Kinds == SpontaneousKinds \cup {"ctxErr"} \cup BadSignalKinds
\* results whose innermost error equals context.Canceled, i.e. ctx.Err() of a cancelled supervisor context
LooksCancelled == {"ctxErr", "canceled", "wrapcanceled"}

Init0(sh) ==
    /\ shape = sh
    /\ st = [n \in sh.nodes |-> IF sh.par[n] = Nil THEN "NEW" ELSE "ABSENT"]
    /\ own = [n \in sh.nodes |-> sh.par[n] = Nil]
    /\ pc = [n \in sh.nodes |-> "none"]
    /\ res = [n \in sh.nodes |-> "nil"]
    /\ todo = [n \in sh.nodes |-> 1]
    /\ sawc = [n \in sh.nodes |-> FALSE]
    /\ sched = [n \in sh.nodes |-> IF sh.par[n] = Nil THEN "ready" ELSE "none"]   \* New() sends the root's schedule request
    /\ running = [n \in sh.nodes |-> 0]
    /\ supLive = TRUE /\ procUp = TRUE /\ dirty = FALSE

-----------------------------------------------------------------------------
(* supervisor side *)

Schedule(n) ==
    /\ procUp /\ sched[n] = "ready" /\ Exists(n)
    /\ sched' = [sched EXCEPT ![n] = "none"]
    /\ pc' = [pc EXCEPT ![n] = "spawned"]
    /\ running' = [running EXCEPT ![n] = @ + 1]
    /\ dirty' = TRUE
    /\ UNCHANGED <<shape, st, own, res, todo, sawc, supLive, procUp>>

BackoffElapsed(n) ==
    /\ sched[n] = "backoff"
    /\ sched' = [sched EXCEPT ![n] = "ready"]
    /\ UNCHANGED <<shape, st, own, pc, res, todo, sawc, running, supLive, procUp, dirty>>

DiedOutcome(n) ==
    IF st[n] = "DONE" /\ res[n] = "nil" THEN "leave"
    ELSE IF res[n] \in LooksCancelled /\ ~Live(n) THEN "CANCELED"     \* only if the node's context really is cancelled:
                                                                    \* with a live context such an error is a death like any other
    ELSE "DEAD"

ProcessDied(n) ==
    /\ procUp /\ pc[n] = "exited"
    /\ pc' = [pc EXCEPT ![n] = "reaped"]
    /\ res' = [res EXCEPT ![n] = "nil"]          \* consumed
    /\ dirty' = TRUE
    /\ CASE DiedOutcome(n) = "leave"    -> UNCHANGED <<st, own>>
         [] DiedOutcome(n) = "CANCELED" -> st' = [st EXCEPT ![n] = "CANCELED"] /\ UNCHANGED own
         [] DiedOutcome(n) = "DEAD"     ->
               /\ st' = [st EXCEPT ![n] = "DEAD"]
               \* own context and the group siblings'; a sibling that signalled completion is left alone
               /\ own' = [m \in Nodes |-> IF m = n \/ (m \in shape.grp[n] /\ Exists(m) /\ st[m] # "DONE") THEN FALSE ELSE own[m]]
    /\ UNCHANGED <<shape, todo, sawc, sched, running, supLive, procUp>>

\* restart scan
Returned(n) == pc[n] = "reaped"              \* the runnable returned and processDied has recorded it
SelfReady(n) == st[n] \in {"DONE", "DEAD", "CANCELED"} /\ Returned(n)
Ready(n) == SelfReady(n) /\ \A m \in Desc(n) : Exists(m) => SelfReady(m)
\* DEAD and CANCELED nodes want a restart; so does a node that was cancelled as a group member and signalled Done
\* only afterwards (the runnable cannot check-and-signal atomically): nothing below it could ever be restarted otherwise.
Want(n) == st[n] \in {"DEAD", "CANCELED"} \/ (st[n] = "DONE" /\ ~Live(n))
Cand(n) == Exists(n) /\ Want(n) /\ Ready(n) /\ ParentLive(n)
Can == {n \in Nodes : Cand(n) /\ \A a \in Anc(n) : ~Cand(a)}

GC ==
    /\ procUp /\ dirty
    /\ dirty' = FALSE
    /\ LET gone == UNION {Desc(n) : n \in Can} IN
       /\ st' = [n \in Nodes |-> IF n \in Can THEN "NEW" ELSE IF n \in gone THEN "ABSENT" ELSE st[n]]
       /\ own' = [n \in Nodes |-> IF n \in Can THEN TRUE ELSE IF n \in gone THEN FALSE ELSE own[n]]
       /\ pc' = [n \in Nodes |-> IF n \in Can \cup gone THEN "none" ELSE pc[n]]
       /\ sched' = [n \in Nodes |-> IF n \in Can THEN (IF st[n] = "DEAD" THEN "backoff" ELSE "ready")
                                    ELSE IF n \in gone THEN "none" ELSE sched[n]]
    /\ UNCHANGED <<shape, res, todo, sawc, running, supLive, procUp>>

Kill ==
    /\ supLive
    /\ supLive' = FALSE
    /\ UNCHANGED <<shape, st, own, pc, res, todo, sawc, sched, running, procUp, dirty>>

ProcessKill ==
    /\ procUp /\ ~supLive
    /\ procUp' = FALSE
    /\ own' = [n \in Nodes |-> FALSE]
    /\ UNCHANGED <<shape, st, pc, res, todo, sawc, sched, running, supLive, dirty>>

-----------------------------------------------------------------------------
(* service side *)

SvcEnter(n) ==
    /\ pc[n] = "spawned"
    /\ pc' = [pc EXCEPT ![n] = "run"]
    /\ todo' = [todo EXCEPT ![n] = 1]
    /\ sawc' = [sawc EXCEPT ![n] = FALSE]
    /\ UNCHANGED <<shape, st, own, res, sched, running, supLive, procUp, dirty>>

\* supervisor.RunGroup from the runnable of n: only a NEW node may start children; the members get fresh nodes whose
\* contexts derive from n's, and one schedule request each.
SvcRunGroup(n, G) ==
    /\ pc[n] = "run" /\ st[n] = "NEW"
    /\ todo[n] <= Len(shape.kids[n]) /\ G = shape.kids[n][todo[n]]
    /\ \A c \in G : ~Exists(c)
    /\ todo' = [todo EXCEPT ![n] = @ + 1]
    /\ st' = [m \in Nodes |-> IF m \in G THEN "NEW" ELSE st[m]]
    /\ own' = [m \in Nodes |-> IF m \in G THEN TRUE ELSE own[m]]
    /\ pc' = [m \in Nodes |-> IF m \in G THEN "none" ELSE pc[m]]
    /\ sched' = [m \in Nodes |-> IF m \in G THEN "ready" ELSE sched[m]]
    /\ UNCHANGED <<shape, res, sawc, running, supLive, procUp, dirty>>

SvcHealthy(n) ==
    /\ pc[n] = "run" /\ st[n] = "NEW"
    /\ st' = [st EXCEPT ![n] = "HEALTHY"]
    /\ UNCHANGED <<shape, own, pc, res, todo, sawc, sched, running, supLive, procUp, dirty>>

\* A runnable that signalled Done is expected to return nil by itself (package documentation); until it does (pc =
\* "doneret", any number of other steps may intervene: it may linger) it still counts as a running instance.
SvcDone(n) ==
    /\ pc[n] = "run" /\ st[n] = "HEALTHY"
    /\ st' = [st EXCEPT ![n] = "DONE"]
    /\ pc' = [pc EXCEPT ![n] = "doneret"]
    /\ UNCHANGED <<shape, own, res, todo, sawc, sched, running, supLive, procUp, dirty>>

SvcSawCancel(n) ==
    /\ pc[n] = "run" /\ ~sawc[n] /\ ~Live(n)
    /\ sawc' = [sawc EXCEPT ![n] = TRUE]
    /\ UNCHANGED <<shape, st, own, pc, res, todo, sched, running, supLive, procUp, dirty>>

SvcExit(n, k) ==
    /\ \/ pc[n] = "run" /\ k \in SpontaneousKinds
       \/ pc[n] = "run" /\ k = "ctxErr" /\ sawc[n]          \* returns ctx.Err() of a context it saw cancelled
       \/ pc[n] = "doneret" /\ k = "nil"
    /\ pc' = [pc EXCEPT ![n] = "exited"]
    /\ res' = [res EXCEPT ![n] = k]
    /\ running' = [running EXCEPT ![n] = @ - 1]
    /\ todo' = [todo EXCEPT ![n] = 1] /\ sawc' = [sawc EXCEPT ![n] = FALSE]      \* instance-local values die with it
    /\ UNCHANGED <<shape, st, own, sched, supLive, procUp, dirty>>

\* A signal the node state does not allow.  supervisor.Signal panics (after releasing the tree lock); nothing of the
\* node changes, the runnable's goroutine ends with the captured panic.
SvcBadSignal(n, sg) ==
    /\ pc[n] \in {"run", "doneret"}
    /\ \/ sg = "healthy" /\ st[n] # "NEW"
       \/ sg = "done" /\ st[n] # "HEALTHY"
    /\ pc' = [pc EXCEPT ![n] = "exited"]
    /\ res' = [res EXCEPT ![n] = IF sg = "healthy" THEN "badhealthy" ELSE "baddone"]
    /\ running' = [running EXCEPT ![n] = @ - 1]
    /\ todo' = [todo EXCEPT ![n] = 1] /\ sawc' = [sawc EXCEPT ![n] = FALSE]
    /\ UNCHANGED <<shape, st, own, sched, supLive, procUp, dirty>>

-----------------------------------------------------------------------------
(* properties *)

States == {"ABSENT", "NEW", "HEALTHY", "DEAD", "DONE", "CANCELED"}
TypeOK ==
    /\ \A n \in Nodes : /\ st[n] \in States /\ own[n] \in BOOLEAN
                        /\ pc[n] \in {"none", "spawned", "run", "doneret", "exited", "reaped"}
                        /\ res[n] \in Kinds /\ sched[n] \in {"none", "backoff", "ready"}
                        /\ running[n] \in 0..2
    /\ supLive \in BOOLEAN /\ procUp \in BOOLEAN /\ dirty \in BOOLEAN

\* C18: at no time do two instances of the same service run concurrently
AtMostOneInstance == \A n \in Nodes : running[n] <= 1

\* bookkeeping sanity: the goroutine states and the counter agree; requests only target existing NEW nodes
Coherent ==
    \A n \in Nodes :
      /\ running[n] = (IF pc[n] \in {"spawned", "run", "doneret"} THEN 1 ELSE 0)
      /\ sched[n] # "none" => st[n] = "NEW" /\ pc[n] = "none"
      /\ ~Exists(n) => pc[n] = "none" /\ sched[n] = "none"
      /\ st[n] \in {"DEAD", "CANCELED"} => pc[n] = "reaped"
      /\ Exists(n) /\ shape.par[n] # Nil => Exists(shape.par[n])

Active(n) == pc[n] \in {"spawned", "run", "doneret"}

\* C18: a service that signalled completion is left alone (it only disappears when an ancestor's subtree is restarted)
DoneLeftAloneStep ==
    \A n \in Nodes : st[n] = "DONE" =>
        \/ st'[n] = "DONE"
        \/ st'[n] = "ABSENT" /\ \E a \in Anc(n) : Want(a) /\ st'[a] = "NEW"
        \/ st'[n] = "NEW" /\ ~Live(n) /\ Returned(n)          \* its context was cancelled by a related failure
        \/ st'[n] = "DEAD" /\ pc[n] = "exited" /\ res[n] # "nil"   \* it did not complete after all: its runnable panicked
                                                                \* after the Done signal (eg. signalled Done twice)
DoneLeftAlone == [][DoneLeftAloneStep]_vars

\* C18: only DEAD/CANCELED nodes are ever (re)started, and only while nothing of the old incarnation runs
RestartOnlyDeadStep ==
    \A n \in Nodes : (st'[n] = "NEW" /\ st[n] \notin {"NEW", "ABSENT"}) =>
        /\ Want(n)
        /\ \A m \in Desc(n) \cup {n} : ~Active(m)
RestartOnlyDead == [][RestartOnlyDeadStep]_vars

\* C18: once the processor has seen the cancelled supervisor context nothing is started any more
NoStartAfterKillStep == ~procUp => \A n \in Nodes : running'[n] <= running[n]
NoStartAfterKill == [][NoStartAfterKillStep]_vars

\* C18 (liveness): a failed or cancelled service runs again while the supervisor is live
\* (covers the failed service itself, own = FALSE after DEAD, and its cancelled group siblings).
\* Temporal quantification needs a constant set, so the formulas are per node; MC_Supervisor conjoins them.
NeedsRestart(n) == n \in Nodes /\ st[n] \in {"NEW", "HEALTHY", "DEAD", "CANCELED"} /\ ~own[n] /\ supLive
RunsAgain(n)    == ~supLive \/ (n \in Nodes /\ (st[n] = "DONE" \/ (own[n] /\ running[n] = 1)))   \* or it completed instead
RestartAfterFailureAt(n) == NeedsRestart(n) ~> RunsAgain(n)
DeadRestartsAt(n) == (n \in Nodes /\ st[n] = "DEAD" /\ supLive) ~> (~supLive \/ (n \in Nodes /\ running[n] = 1))

\* C18 (liveness): cancelling the supervisor's context stops every service
KillStopsAll ==
    /\ (~supLive) ~> (~procUp)
    /\ (~supLive) ~> (\A n \in Nodes : running[n] = 0)
=============================================================================
