----------------------------- MODULE Gen_P2PLoop -----------------------------
(* Scenario generator for the p2p.Run loop harness: behaviours of MC_P2PLoop with a history variable, run under
   `tlc -simulate`; one SCN line per behaviour. *)
EXTENDS MC_P2PLoop, Json
CONSTANT GenDepth
VARIABLES hist, done
glvars == <<mlvars, hist, done>>
GLInit == MLInit /\ hist = <<>> /\ done = FALSE
\* balanced generation: the simulator picks uniformly among successor states, so the big envelope family is thinned
GenEnvs == {e \in Envs : /\ e.peer = "p1" /\ e.claimed \in {"g1", "x1"}
                          /\ \/ (e.signer = e.claimed /\ e.dom = e.kind /\ e.same /\ e.parses /\ e.plen \in {6, 40})      \* valid / below the floor
                             \/ (e.plen = 40 /\ e.parses /\ e.same /\ e.dom = e.kind /\ e.signer # e.claimed)           \* other signer / unrecoverable
                             \/ (e.plen = 40 /\ e.parses /\ e.same /\ e.dom # e.kind /\ e.signer = e.claimed)           \* other / no domain
                             \/ (e.plen = 40 /\ e.signer = e.claimed /\ e.dom = e.kind /\ (e.parses # e.same))}         \* other payload / unparsable
GenMsgs == {m \in Msgs : (m.kind \in {"obs", "vaa", "none"} /\ m.tag = "a") \/ (m.kind \in {"hb", "req"} /\ m.e \in GenEnvs /\ (m.decodes \/ m.from = "p1"))}
GLStep ==
    /\ Len(hist) < GenDepth /\ UNCHANGED done
    /\ steps' = steps + 1
    /\ \/ \E S \in AllSets : LSetUpdate(S) /\ msg' = Nil /\ local' = FALSE /\ hist' = Append(hist, [ev |-> "GSetUpdate", a |-> [set |-> S]])
       \/ \E m \in GenMsgs : \E st \in BOOLEAN : NetRecv(m, st) /\ msg' = m /\ local' = FALSE /\ hist' = Append(hist, [ev |-> "NetRecv", a |-> [m |-> m]])
       \/ \E r \in {R1, R2} : LocalReq(r, 40) /\ msg' = Nil /\ local' = TRUE /\ hist' = Append(hist, [ev |-> "LocalReq", a |-> [req |-> r]])
    /\ (Len(hist) = 0 => gs' # Nil)        \* histories start with a guardian set (the others come from the seeded generator)
GLFinish == Len(hist) = GenDepth /\ ~done /\ done' = TRUE /\ PrintT(<<"SCN", ToJson(hist)>>) /\ UNCHANGED <<mlvars, hist>>
GLNext == GLStep \/ GLFinish
GLSpec == GLInit /\ [][GLNext]_glvars
=============================================================================
