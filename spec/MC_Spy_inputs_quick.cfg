SPECIFICATION MCSpec
CONSTANTS
  Nil = Nil
  Cap = 1
  NSubs = 3
  NVaas = 2
  MaxFaults = 1
  MaxStall = 1
  MaxResume = 1
  MaxFail = 1
  MaxCancel = 1
  Policies = {"skip", "put", "drop", "kick"}
  BadAt = 1
  AllowInvalid = TRUE
INVARIANTS
  TypeOK
  ExactDelivery
  MutexDiscipline
  NeverStuckOnSlow
  RefusedGetNothing
PROPERTIES
  ServeReaders
  QueueFifo
CHECK_DEADLOCK FALSE
