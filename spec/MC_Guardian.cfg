SPECIFICATION MSpec
CONSTANTS
  Nil = Nil
  Cap = 2
  Self = "g1"
  W = 11
  P = 7
  MaxSteps = 7
INVARIANTS
  OnlyVerifiedRequestsReachWatchers
  OnlyNamedChain
PROPERTIES
  AtMostOncePerWindow
CHECK_DEADLOCK FALSE
