SPECIFICATION NFairSpec
CONSTANTS
  Honest = {"h1", "h2", "h3"}
  Byz = {"b1"}
  Nil = Nil
INVARIANTS
  NoForgedQuorum
  OnlyTheChainBodyIsPublished
  PublishedMeansQuorum
  QuorumsIntersectInHonest
PROPERTIES
  EventualVAA
CHECK_DEADLOCK FALSE
