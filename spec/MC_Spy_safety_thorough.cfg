SPECIFICATION MCSpec
CONSTANTS
  Nil = Nil
  Cap = 1
  NSubs = 3
  NVaas = 3
  MaxFaults = 2
  MaxStall = 1
  MaxResume = 1
  MaxFail = 1
  MaxCancel = 1
  Policies = {"skip", "put", "drop", "kick"}
  BadAt = 0
  AllowInvalid = FALSE
INVARIANTS
  TypeOK
  ExactDelivery
  MutexDiscipline
  NeverStuckOnSlow
PROPERTIES
  ServeReaders
  QueueFifo
CHECK_DEADLOCK FALSE
