INIT InitC05S
NEXT NoNext
CONSTANTS
  Big = FALSE
INVARIANTS
  C05S_Boundary
  C05S_Emit
CHECK_DEADLOCK FALSE
