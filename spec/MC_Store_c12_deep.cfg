SPECIFICATION MCSpec
CONSTANTS
  Nil = Nil
  GovChain = 1
  GovEm = "g"
  Terminated = TRUE
  Chains = {2, 4, 25, 42, 255}
  EmNames = {"a", "c"}
  Seqs = {0, 1, 2, 10}
  Tags = {"v1"}
  QSets = {{0}, {1, 10}, {0, 1, 2, 10}}
  MaxIds = 4
  WithQueries = FALSE
  WithCrash = FALSE
VIEW View
INVARIANTS
  GetExact
  ScanSelectsStream
  GapIsolated
  BatchIsolated
  NeverForeignBytes
PROPERTIES
  ViewsAgree
  QueriesReadOnly
  NeverForeignRead
  AckedReadBack
CHECK_DEADLOCK FALSE
