SPECIFICATION GenSpec
CONSTANTS
  Nil = Nil
  WScaled = 3
  Jumps = {1, 2, 3, 4}
  Lag = 2
  Modes = {TRUE, FALSE}
  CLs = {0, 1}
  MineBack = 1
  ArmKinds = {"poll", "rhead", "hreceipt", "rreceipt", "rtime"}
  RemineStatus = {0, 1}
  MidScanHeads = TRUE
  HeldIntake = TRUE
  MaxHeads = 6
  MaxMine = 3
  MaxPush = 4
  MaxReorg = 1
  MaxRemine = 1
  MaxDrop = 1
  MaxFail = 1
  MaxArm = 1
  MaxReq = 2
  MaxRestart = 1
  GenDepth = 36
CONSTRAINT Emit
CHECK_DEADLOCK FALSE
