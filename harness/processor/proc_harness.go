package processor

// Conformance harness for Processor.tla (C01 C02 C03a C13 C14): replays abstract scenarios (TLC
// behaviours and generated adversarial histories) on the real handlers of this package and records one
// trace line per handler call with the projected post-state.  Injected via -overlay; not part of /repo.

import (
	"github.com/alephium/wormhole-fork/node/pkg/notify/discord"
	"context"
	"crypto/sha256"
	"encoding/binary"
	"encoding/hex"
	"fmt"
	"os"
	"reflect"
	"runtime"
	"runtime/debug"
	"sort"
	"strings"
	"sync"
	"testing"
	"time"
	"unsafe"

	"github.com/alephium/wormhole-fork/node/pkg/common"
	"github.com/alephium/wormhole-fork/node/pkg/db"
	"github.com/alephium/wormhole-fork/node/pkg/ecdsasigner"
	gossipv1 "github.com/alephium/wormhole-fork/node/pkg/proto/gossip/v1"
	"github.com/alephium/wormhole-fork/node/pkg/reporter"
	"github.com/alephium/wormhole-fork/node/pkg/supervisor"
	"github.com/alephium/wormhole-fork/node/pkg/vaa"
	ethcommon "github.com/ethereum/go-ethereum/common"
	"go.uber.org/zap"
	"go.uber.org/zap/zaptest/observer"
	"google.golang.org/protobuf/proto"
)

const phGovChain = vaa.ChainID(1)

var phGovEmitter = vaa.Address{31: 4}

type phWorld struct {
	t     *testing.T
	ctx   context.Context
	db    *db.Database
	keys  *vhKeys
	trace *vhTrace
	self  string
}

// per-scenario state
type phRun struct {
	w     *phWorld
	sc    int
	p     *Processor
	sendC chan []byte
	// what drain reads: sendC itself, or - "SendBusy" scenarios - the far side of a p2p loop that is never parked in its
	// receive (it polls): a blocking send gets through within a poll interval, a non-blocking one never does
	sendOut chan []byte
	fwdMu   sync.Mutex
	obsvC   chan *gossipv1.SignedObservation
	reqC    chan *gossipv1.ObservationRequest

	digests map[string]string // digest hex -> abstract name
	ids     map[string]string // message id string -> abstract name
	idVals  map[string]vaa.VAAID
	txs     map[string]string // tx hex -> abstract name
	loop    map[string][]*gossipv1.SignedObservation
	signed  map[string][]byte // digest name -> bytes of the observation message emitted when signing
	bodies  map[string]*vhVAA // digest name -> body
	// run-loop mode: inputs go through the channels of the real Processor.Run select loop
	loopMode  bool
	lockC     chan *common.MessagePublication
	setC      chan *common.GuardianSet
	injectC   chan *vaa.VAA
	signedInC chan *gossipv1.SignedVAAWithQuorum
	tickC     chan time.Time
	runDead   chan string // receives the panic text (or "returned") when Run ends
	logs      *observer.ObservedLogs
	seenOwn   int
	reqFree   int // free slots of the outbound re-observation request queue before the current step
	store     *db.Database
	stopRun   func()
	deadMu    sync.Mutex
	deadMsg   string
	down      bool                   // the store was closed by a StoreDown step
	tickerSet bool                   // Run's cleanup ticker was replaced by one the harness controls
	aborted   bool                   // a handler call / the Run loop of this scenario hangs: nothing more can be executed on it
	lastDB    map[string]interface{} // last projection of the store while it answered
	ownDB     *db.Database
}

func phHash(parts ...interface{}) [32]byte {
	return sha256.Sum256([]byte(fmt.Sprint(parts...)))
}

// body builds the concrete message for abstract (d, id, attrs).
func (r *phRun) body(a map[string]interface{}) *vhVAA {
	d, id := vhStr(a, "d"), vhStr(a, "id")
	eid := id
	if e := vhStr(a, "eid"); e != "" {
		eid = e // same emitter (chain, address, target) as message id `e`, another sequence number
	}
	hi := phHash("id|", r.sc, "|", eid)
	hd := phHash("d|", r.sc, "|", d)
	v := &vhVAA{Version: 1}
	v.EChain = uint16(vhInt(a, "chain", 2))
	copy(v.Emitter[:], hi[:])
	v.Emitter[0] = 0x7e
	v.TChain = uint16(vhInt(a, "target", int(binary.BigEndian.Uint16(hi[20:22])%40)))
	v.Seq = uint64(vhInt(a, "seq", int(binary.BigEndian.Uint32(hi[24:28]))))
	if vhBool(a, "gov") {
		v.EChain = uint16(phGovChain)
		v.Emitter = phGovEmitter
	}
	if vhBool(a, "govaddr") { // the governance emitter's address on another chain: NOT the governance emitter
		v.Emitter = phGovEmitter
	}
	v.Nonce = binary.BigEndian.Uint32(hd[0:4])
	v.Ts = 1600000000 + uint32(binary.BigEndian.Uint16(hd[4:6]))
	if ts, ok := a["ts"]; ok {
		v.Ts = uint32(ts.(float64))
	}
	v.CL = hd[6]
	plen := vhInt(a, "plen", 1+int(hd[7])%64)
	if vhBool(a, "empty") {
		plen = 0
	}
	v.Payload = vhExpand(fmt.Sprint("pl|", r.sc, "|", d), plen)
	r.digests[hex.EncodeToString(v.Digest())] = d
	r.ids[v.MessageID()] = id
	r.idVals[id] = vaa.VAAID{EmitterChain: vaa.ChainID(v.EChain), EmitterAddress: vaa.Address(v.Emitter),
		TargetChain: vaa.ChainID(v.TChain), Sequence: v.Seq}
	r.bodies[d] = v
	return v
}

func (r *phRun) tx(name string) ethcommon.Hash {
	h := phHash("tx|", r.sc, "|", name)
	r.txs[hex.EncodeToString(h[:])] = name
	return ethcommon.Hash(h)
}

func (r *phRun) dName(digest []byte) string {
	if n, ok := r.digests[hex.EncodeToString(digest)]; ok {
		return n
	}
	return "?" + hex.EncodeToString(digest)
}

func (r *phRun) set(a map[string]interface{}) *common.GuardianSet {
	gs := &common.GuardianSet{Index: uint32(vhInt(a, "idx", 0))}
	for _, k := range vhList(a, "keys") {
		gs.Keys = append(gs.Keys, r.w.keys.Addr(k.(string)))
	}
	return gs
}

func (r *phRun) projSet(gs *common.GuardianSet) []interface{} {
	if gs == nil {
		return vhOpt(nil, false)
	}
	keys := []interface{}{}
	for _, k := range gs.Keys {
		keys = append(keys, r.w.keys.Name(k))
	}
	return vhOpt(map[string]interface{}{"idx": gs.Index, "keys": keys}, true)
}

// projVAA decodes wire bytes with the harness's own decoder and recovers every signer over the VAA's own digest.
func (r *phRun) projVAA(b []byte) map[string]interface{} {
	v, err := vhDecode(b, true)
	if err != nil {
		return map[string]interface{}{"d": "?undecodable", "id": "?", "setIdx": 0, "sigs": []interface{}{}}
	}
	dg := v.Digest()
	sigs := []interface{}{}
	for _, s := range v.Sigs {
		sigs = append(sigs, map[string]interface{}{"idx": int(s.Index), "signer": r.w.keys.Recover(dg, s.Sig[:])})
	}
	id, ok := r.ids[v.MessageID()]
	if !ok {
		id = "?" + v.MessageID()
	}
	return map[string]interface{}{"d": r.dName(dg), "id": id, "setIdx": int(v.SetIndex), "sigs": sigs}
}

func (r *phRun) projState(out []interface{}, panicked string) map[string]interface{} {
	p := r.p
	agg := map[string]interface{}{}
	for h, s := range p.state.vaaSignatures {
		hb, _ := hex.DecodeString(h)
		signers := []string{}
		for addr, sig := range s.signatures {
			n := r.w.keys.Name(addr)
			if rec := r.w.keys.Recover(hb, sig); rec != n {
				n = "BADSIG:" + n
			}
			signers = append(signers, n)
		}
		sort.Strings(signers)
		var our []interface{}
		if s.ourVAA != nil {
			ov := s.ourVAA
			id, ok := r.ids[ov.MessageID()]
			if !ok {
				id = "?" + ov.MessageID()
			}
			// the entry key must be the digest of the VAA it holds
			bodyOK := hex.EncodeToString(vhDigestOfBody((&vhVAA{Ts: uint32(ov.Timestamp.Unix()), Nonce: ov.Nonce, EChain: uint16(ov.EmitterChain),
				TChain: uint16(ov.TargetChain), Emitter: ov.EmitterAddress, Seq: ov.Sequence, CL: ov.ConsistencyLevel, Payload: ov.Payload}).Body())) == h
			if !bodyOK {
				id = "?body-mismatch"
			}
			if (s.ourMsg == nil) != (s.ourVAA == nil) {
				id = "?ourMsg-mismatch"
			}
			our = vhOpt(map[string]interface{}{"id": id, "setIdx": int(ov.GuardianSetIndex), "chain": int(ov.EmitterChain)}, true)
		} else {
			our = vhOpt(nil, false)
		}
		var tx []interface{}
		if s.txHash != nil {
			n, ok := r.txs[hex.EncodeToString(s.txHash)]
			if !ok {
				n = "?" + hex.EncodeToString(s.txHash)
			}
			tx = vhOpt(n, true)
		} else {
			tx = vhOpt(nil, false)
		}
		agg[r.dName(hb)] = map[string]interface{}{
			"sigs": signers, "our": our, "snap": r.projSet(s.gs), "submitted": s.submitted,
			"retry": int(s.retryCount), "tx": tx,
		}
	}
	dbm := map[string]interface{}{}
	if r.down {
		dbm = r.lastDB // a closed store cannot be read; its content cannot change either
	} else {
		for name, id := range r.idVals {
			b, err := p.db.GetSignedVAABytes(id)
			if err == nil {
				dbm[name] = r.projVAA(b)
			}
		}
		r.lastDB = dbm
	}
	loop := map[string]interface{}{}
	for d, l := range r.loop {
		if len(l) > 0 {
			loop[d] = len(l)
		}
	}
	s := map[string]interface{}{"gs": r.projSet(p.gs), "gst": r.projSet(p.gst.Get()), "agg": agg, "db": dbm, "loop": loop, "out": out,
		"reqfree": r.reqFree}
	if panicked != "" {
		s["panic"] = panicked
	}
	return s
}

// drain collects everything the step emitted and classifies it.
func (r *phRun) drain(signStep bool) []interface{} {
	r.fwdMu.Lock() // a message the busy-p2p forwarder has taken but not yet passed on
	r.fwdMu.Unlock()
	out := []interface{}{}
	nObs := 0
	for {
		select {
		case b := <-r.sendOut:
			var g gossipv1.GossipMessage
			if err := proto.Unmarshal(b, &g); err != nil {
				out = append(out, map[string]interface{}{"kind": "garbage"})
				continue
			}
			switch m := g.Message.(type) {
			case *gossipv1.GossipMessage_SignedObservation:
				o := m.SignedObservation
				d := r.dName(o.Hash)
				signer := r.w.keys.Recover(o.Hash, o.Signature)
				if r.w.keys.Name(ethcommon.BytesToAddress(o.Addr)) != signer {
					signer = "ADDR-MISMATCH"
				}
				resend := false
				if prev, ok := r.signed[d]; ok && string(prev) == string(b) && !signStep {
					resend = true
				}
				if signStep {
					r.signed[d] = b
					nObs++
				}
				midOK := false
				if bd, ok := r.bodies[d]; ok {
					midOK = bd.MessageID() == o.MessageId
				}
				var tx []interface{}
				if o.TxHash != nil {
					n, ok := r.txs[hex.EncodeToString(o.TxHash)]
					if !ok {
						n = "?" + hex.EncodeToString(o.TxHash)
					}
					tx = vhOpt(n, true)
				} else {
					tx = vhOpt(nil, false)
				}
				out = append(out, map[string]interface{}{"kind": "obs", "d": d, "signer": signer, "resend": resend, "tx": tx, "midok": midOK})
			case *gossipv1.GossipMessage_SignedVaaWithQuorum:
				out = append(out, map[string]interface{}{"kind": "vaa", "vaa": r.projVAA(m.SignedVaaWithQuorum.Vaa)})
			default:
				out = append(out, map[string]interface{}{"kind": "other"})
			}
			continue
		default:
		}
		break
	}
	for {
		select {
		case q := <-r.reqC:
			var tx []interface{}
			if q.TxHash != nil {
				n, ok := r.txs[hex.EncodeToString(q.TxHash)]
				if !ok {
					n = "?" + hex.EncodeToString(q.TxHash)
				}
				tx = vhOpt(n, true)
			} else {
				tx = vhOpt(nil, false)
			}
			out = append(out, map[string]interface{}{"kind": "req", "chain": int(q.ChainId), "tx": tx})
			continue
		default:
		}
		break
	}
	if r.loopMode {
		return out // in run-loop mode only Run itself receives from obsvC
	}
	// own signatures looped back (sent from a goroutine): wait for as many as observations were signed.
	for i := 0; i < nObs; i++ {
		select {
		case o := <-r.obsvC:
			d := r.dName(o.Hash)
			r.loop[d] = append(r.loop[d], o)
		case <-time.After(3 * time.Second):
		}
	}
	for {
		select {
		case o := <-r.obsvC:
			d := r.dName(o.Hash)
			r.loop[d] = append(r.loop[d], o)
			continue
		default:
		}
		break
	}
	return out
}

func (r *phRun) obs(a map[string]interface{}) *gossipv1.SignedObservation {
	k := r.w.keys
	d, over := vhStr(a, "d"), vhStr(a, "over")
	bd, ok := r.bodies[d]
	var hash []byte
	if ok {
		hash = bd.Digest()
	} else {
		// digest never observed locally: derive a stable 32-byte digest for the name
		h := phHash("digest|", r.sc, "|", d)
		hash = h[:]
		r.digests[hex.EncodeToString(hash)] = d
	}
	var overHash []byte
	if over == d {
		overHash = hash
	} else if ob, ok := r.bodies[over]; ok {
		overHash = ob.Digest()
	} else {
		h := phHash("digest|", r.sc, "|", over)
		overHash = h[:]
	}
	o := &gossipv1.SignedObservation{Hash: hash, MessageId: "x"}
	signer := vhStr(a, "signer")
	if signer == "ERR" {
		s := k.Sign("g1", overHash)
		switch vhStr(a, "shape") {
		case "shortsig":
			o.Signature = s[:64]
		case "longsig":
			o.Signature = append(s, 0)
		case "nilsig":
			o.Signature = nil
		case "zerors":
			o.Signature = make([]byte, 65)
		case "v27":
			// a genuine signature of the CLAIMED guardian over the right bytes, re-encoded with the Ethereum-style
			// recovery id 27/28: not a signature in this protocol's encoding (VerifySignatures and the contracts refuse it)
			s = k.Sign(vhStr(a, "claimed"), overHash)
			s[64] += 27
			o.Signature = s
		default:
			s[64] = 9 // invalid recovery id
			o.Signature = s
		}
	} else {
		o.Signature = k.Sign(signer, overHash)
	}
	claimed := vhStr(a, "claimed")
	o.Addr = k.Addr(claimed).Bytes()
	switch vhStr(a, "shape") {
	case "nilhash":
		o.Hash = nil
	case "shorthash":
		o.Hash = hash[:31]
	case "longhash":
		o.Hash = append(append([]byte{}, hash...), 1)
	case "prehash": // bytes in front of a genuine digest: cropping to the last 32 bytes would make the signature verify
		o.Hash = append([]byte{1}, hash...)
	case "prehash2":
		o.Hash = append([]byte{0, 0}, hash...)
	case "niladdr":
		o.Addr = nil
	case "shortaddr":
		o.Addr = o.Addr[:19]
	case "longaddr":
		o.Addr = append([]byte{1}, o.Addr...)
	}
	return o
}

func (r *phRun) inbound(a map[string]interface{}) *gossipv1.SignedVAAWithQuorum {
	bd := *r.bodyFor(a)
	bd.SetIndex = uint32(vhInt(a, "setIdx", 0))
	dg := bd.Digest()
	for _, s := range vhList(a, "sigs") {
		sm := s.(map[string]interface{})
		var sig vhSig
		sig.Index = uint8(vhInt(sm, "idx", 0))
		switch name := vhStr(sm, "signer"); name {
		case "ERR":
			b := r.w.keys.Sign("g1", dg)
			b[64] = 9
			copy(sig.Sig[:], b)
		case "JUNK":
			copy(sig.Sig[:], r.w.keys.Sign("g1", vhDigestOfBody([]byte("another body"))))
		default:
			copy(sig.Sig[:], r.w.keys.Sign(name, dg))
		}
		bd.Sigs = append(bd.Sigs, sig)
	}
	b := bd.Encode()
	if !vhBool(a, "ok") {
		switch vhStr(a, "shape") {
		case "badversion":
			b[0] = 2
		case "truncated":
			b = b[:len(b)-len(bd.Payload)-3]
		case "nil":
			b = nil
		case "countlie":
			b[5] = 255
		default:
			b = b[:40]
		}
	}
	return &gossipv1.SignedVAAWithQuorum{Vaa: b}
}

func (r *phRun) bodyFor(a map[string]interface{}) *vhVAA {
	if bd, ok := r.bodies[vhStr(a, "d")]; ok && vhStr(a, "id") == r.ids[bd.MessageID()] {
		return bd
	}
	return r.body(a)
}

// step executes one abstract step on the real handlers and returns the emitted trace state.
func (r *phRun) step(st vhStep) {
	if r.aborted {
		return
	}
	p := r.p
	ctx := r.w.ctx
	signStep := false
	var call func()
	var send func() bool // run-loop mode: deliver through the channel Run selects on
	switch st.Ev {
	case "ReqCap", "SendBusy":
		return // configuration of the scenario, see phReqCap / runScenario
	case "SetUpdate":
		gs := r.set(vhMap(st.A, "set"))
		call = func() { p.gs = gs; p.gst.Set(p.gs) } // the two statements of the setC case of Run
		send = func() bool {
			return r.deliver(func(d <-chan time.Time) bool {
				select {
				case r.setC <- gs:
					return true
				case <-d:
					return false
				}
			})
		}
	case "LocalMessage":
		m := vhMap(st.A, "m")
		bd := r.bodyFor(m)
		ts := time.Unix(int64(bd.Ts), int64(vhInt(m, "tsns", 0)))
		// environment fact for the model (input arithmetic only): against which of the scenario's bodies, were it the
		// stored VAA of this id, this observation comes later than the settlement time (a stored VAA with an empty
		// payload cannot be decoded again, so nothing is late against it)
		late := map[string]interface{}{}
		for d, b := range r.bodies {
			late[d] = len(b.Payload) > 0 && ts.Sub(time.Unix(int64(b.Ts), 0)) > 30*time.Second
		}
		na := map[string]interface{}{"late": late}
		for k, v := range st.A {
			na[k] = v
		}
		st.A = na
		k := &common.MessagePublication{TxHash: r.tx(vhStr(m, "tx")), Timestamp: ts, Nonce: bd.Nonce, Sequence: bd.Seq,
			ConsistencyLevel: bd.CL, EmitterChain: vaa.ChainID(bd.EChain), TargetChain: vaa.ChainID(bd.TChain),
			EmitterAddress: vaa.Address(bd.Emitter), Payload: bd.Payload}
		signStep = true
		call = func() { p.handleMessage(ctx, k) }
		send = func() bool {
			return r.deliver(func(d <-chan time.Time) bool {
				select {
				case r.lockC <- k:
					return true
				case <-d:
					return false
				}
			})
		}
	case "Inject":
		m := vhMap(st.A, "v")
		bd := r.bodyFor(m)
		v := &vaa.VAA{Version: 1, GuardianSetIndex: uint32(vhInt(m, "setIdx", 0)), Timestamp: time.Unix(int64(bd.Ts), 0),
			Nonce: bd.Nonce, Sequence: bd.Seq, ConsistencyLevel: bd.CL, EmitterChain: vaa.ChainID(bd.EChain),
			TargetChain: vaa.ChainID(bd.TChain), EmitterAddress: vaa.Address(bd.Emitter), Payload: bd.Payload}
		signStep = true
		call = func() { p.handleInjection(ctx, v) }
		send = func() bool {
			return r.deliver(func(d <-chan time.Time) bool {
				select {
				case r.injectC <- v:
					return true
				case <-d:
					return false
				}
			})
		}
	case "Observation":
		o := r.obs(vhMap(st.A, "o"))
		call = func() { p.handleObservation(ctx, o) }
		send = func() bool {
			return r.deliver(func(d <-chan time.Time) bool {
				select {
				case r.obsvC <- o:
					return true
				case <-d:
					return false
				}
			})
		}
	case "Loopback", "Loopback?":
		if r.loopMode {
			return // the own observation reaches Run by itself; it is logged with the step that signed
		}
		d := vhStr(st.A, "d")
		l := r.loop[d]
		if len(l) == 0 && st.Ev == "Loopback?" {
			return // conditional delivery: nothing in flight, nothing happens
		}
		st.Ev = "Loopback"
		if len(l) == 0 {
			// the scenario expects an own observation in flight that the code never produced
			r.w.trace.Emit(r.sc, "LoopbackMissing", st.A, r.projState([]interface{}{}, ""))
			return
		}
		o := l[0]
		r.loop[d] = l[1:]
		call = func() { p.handleObservation(ctx, o) }
	case "InboundVAA":
		m := r.inbound(vhMap(st.A, "w"))
		call = func() { p.handleInboundSignedVAAWithQuorum(ctx, m) }
		send = func() bool {
			return r.deliver(func(d <-chan time.Time) bool {
				select {
				case r.signedInC <- m:
					return true
				case <-d:
					return false
				}
			})
		}
	case "Advance":
		k := time.Duration(vhInt(st.A, "k", 0)) * time.Second
		call = func() {
			for _, s := range p.state.vaaSignatures {
				s.firstObserved = s.firstObserved.Add(-k)
				if !s.lastRetry.IsZero() {
					s.lastRetry = s.lastRetry.Add(-k)
				}
			}
		}
	case "CleanupTick":
		call = func() { p.handleCleanup(ctx) }
		send = func() bool {
			return r.deliver(func(d <-chan time.Time) bool {
				select {
				case r.tickC <- time.Now():
					return true
				case <-d:
					return false
				}
			})
		}
		if !r.tickerSet {
			// Run's tick source cannot be replaced (no *time.Ticker field named cleanup): the pass is made while Run
			// is parked in its select (the caller synchronised with it); TestVerifProcessorTicker covers the tick source
			send = func() bool { p.handleCleanup(ctx); return true }
		}
	case "Restart":
		// the process dies and comes back: new Processor, same store; in-flight own observations are gone
		if r.stopRun != nil {
			r.stopRun()
		}
		for k := range r.loop {
			delete(r.loop, k)
		}
		for len(r.obsvC) > 0 {
			<-r.obsvC
		}
		r.start()
		r.drain(false)
		r.w.trace.Emit(r.sc, "Restart", st.A, r.projState([]interface{}{map[string]interface{}{"kind": "restart"}}, ""))
		return
	case "StoreDown":
		if r.ownDB == nil {
			r.w.t.Fatalf("StoreDown in a scenario that does not own its store")
		}
		call = func() { r.ownDB.Close(); r.down = true }
	default:
		r.w.t.Fatalf("unknown scenario event %q", st.Ev)
	}
	r.reqFree = cap(r.reqC) - len(r.reqC)
	if r.loopMode && send != nil {
		r.stepLoop(st, send, signStep)
		return
	}
	panicked := ""
	returned := make(chan string, 1)
	go func() {
		res := ""
		completed := false
		defer func() {
			// `completed` rather than recover() != nil: under the module's go 1.19 semantics panic(nil) makes
			// recover() return nil although the call was aborted
			if x := recover(); x != nil || !completed {
				res = fmt.Sprintf("%v\n%s", x, debug.Stack())
			}
			returned <- res
		}()
		call()
		completed = true
	}()
	select {
	case panicked = <-returned:
	case <-time.After(phStallLimit):
		// the handler blocks (e.g. on a full channel nobody else drains): in the node this is the processor loop
		// standing still for good.  Nothing more can be executed on this processor.
		buf := make([]byte, 1<<16)
		buf = buf[:runtime.Stack(buf, true)]
		panicked = fmt.Sprintf("stall: handler call did not return within %v\n%s", phStallLimit, phStackOf(string(buf), "processor.(*Processor)"))
		r.aborted = true
		phStalls++
	}
	out := r.drain(signStep)
	r.w.trace.Emit(r.sc, st.Ev, st.A, r.projState(out, panicked))
}

// ---- run-loop mode -------------------------------------------------------------------------------------------------

// deliver performs one channel send to the Run loop; false when Run is gone or does not take it within the deadline.
func (r *phRun) deliver(try func(deadline <-chan time.Time) bool) bool {
	// the "deadline" channel also fires as soon as the Run goroutine has ended (panic or return), so that a dead
	// loop is noticed at once instead of after the full deadline
	d := make(chan time.Time, 1)
	stop := make(chan struct{})
	defer close(stop)
	go func() {
		select {
		case t, ok := <-r.runDead:
			if ok {
				r.deadMu.Lock()
				r.deadMsg = t
				r.deadMu.Unlock()
			}
			d <- time.Now()
		case <-time.After(5 * time.Second):
			d <- time.Now()
		case <-stop:
		}
	}()
	return try(d)
}

// sync returns once every handler started before it has finished: Run can only receive the (undecodable, hence
// ignored) sentinel VAA after it returned to its select.
func (r *phRun) sync() bool {
	for i := 0; i < 2; i++ {
		ok := r.deliver(func(d <-chan time.Time) bool {
			select {
			case r.signedInC <- &gossipv1.SignedVAAWithQuorum{Vaa: nil}:
				return true
			case <-d:
				return false
			}
		})
		if !ok {
			return false
		}
	}
	return true
}

func (r *phRun) ownObservationsHandled() int {
	self := hex.EncodeToString(r.w.keys.Addr(r.w.self).Bytes())
	n := 0
	for _, e := range r.logs.FilterMessage("received observation").All() {
		if e.ContextMap()["addr"] == self {
			n++
		}
	}
	return n
}

func (r *phRun) deadText() string {
	r.deadMu.Lock()
	m := r.deadMsg
	r.deadMu.Unlock()
	if m != "" {
		return m
	}
	select {
	case t := <-r.runDead:
		return t
	case <-time.After(2 * time.Second):
		return "processor loop stopped taking input (no panic recorded)"
	}
}

func splitOut(out []interface{}) (first, rest []interface{}) {
	first, rest = []interface{}{}, []interface{}{}
	for _, o := range out {
		if o.(map[string]interface{})["kind"] == "obs" {
			first = append(first, o)
		} else {
			rest = append(rest, o)
		}
	}
	return
}

func (r *phRun) stepLoop(st vhStep, send func() bool, signStep bool) {
	r.seenOwn = r.ownObservationsHandled() // baseline: observations in the node's own name handled so far
	if !send() || !r.sync() {
		r.w.trace.Emit(r.sc, st.Ev, st.A, r.projState(r.drain(false), r.deadText()))
		r.loopMode = false // the loop is gone: nothing more can be delivered
		r.runDead = nil
		r.aborted = true // (and its channels are unbuffered: calling the handlers directly could block on them)
		phLoopDeaths++
		return
	}
	out := r.drain(signStep)
	signed := false
	for _, o := range out {
		if m := o.(map[string]interface{}); m["kind"] == "obs" && m["resend"] == false && signStep {
			signed = true
		}
	}
	if !signed {
		r.w.trace.Emit(r.sc, st.Ev, st.A, r.projState(out, ""))
		return
	}
	// the handler signed: its own observation travels back to Run on obsvC by itself; wait until Run handled it
	wait := 3 * time.Second
	if phLoopbackMissing >= 3 {
		wait = 50 * time.Millisecond // the verdict of this run is already decided; do not wait again and again
	}
	deadline := time.Now().Add(wait)
	for r.ownObservationsHandled() <= r.seenOwn && time.Now().Before(deadline) {
		if !r.sync() {
			break
		}
	}
	handled := r.ownObservationsHandled() > r.seenOwn
	r.sync()
	out2 := r.drain(false)
	first, rest := splitOut(append(out, out2...))
	d := first[0].(map[string]interface{})["d"].(string)
	// the state right after the signing handler cannot be read without racing the loop: that line is applied but not compared
	r.w.trace.Emit(r.sc, st.Ev, st.A, map[string]interface{}{"nocmp": true, "out": first})
	if handled {
		r.w.trace.Emit(r.sc, "Loopback", map[string]interface{}{"d": d}, r.projState(rest, ""))
	} else {
		phLoopbackMissing++
		r.w.trace.Emit(r.sc, "LoopbackMissing", map[string]interface{}{"d": d}, r.projState(rest, ""))
	}
}

var phLoopbackMissing int

// phSetTicker replaces the processor's cleanup ticker (unexported field `cleanup *time.Ticker`) through reflection, so
// that the harness still builds when the tick source is restructured; false if there is no such field.
func phSetTicker(p *Processor, t *time.Ticker) bool {
	f := reflect.ValueOf(p).Elem().FieldByName("cleanup")
	if !f.IsValid() || f.Type() != reflect.TypeOf(t) {
		return false
	}
	reflect.NewAt(f.Type(), unsafe.Pointer(f.UnsafeAddr())).Elem().Set(reflect.ValueOf(t))
	return true
}

// TestVerifProcessorTicker: the fairness assumption of Processor.tla's CleanupTick (it keeps happening whatever else
// arrives) on the real Run loop and its real 30-s tick source, in real time: an aggregation entry that is due for
// removal must be gone within ~1.5 tick periods although gossip keeps arriving every 200 ms.
func TestVerifProcessorTicker(t *testing.T) {
	if os.Getenv("VERIF_TICKER") == "" {
		t.Skip("VERIF_TICKER not set")
	}
	database, err := db.Open(t.TempDir())
	if err != nil {
		t.Fatal(err)
	}
	defer database.Close()
	keys := vhNewKeys(os.Getenv("VERIF_SEED"))
	rootCtx, rootCancel := context.WithCancel(context.Background())
	defer rootCancel()
	finished := make(chan struct{})
	supervisor.New(rootCtx, zap.NewNop(), func(sctx context.Context) error {
		defer close(finished)
		ctx, cancel := context.WithCancel(sctx)
		defer cancel()
		obsvC := make(chan *gossipv1.SignedObservation, 64)
		signedInC := make(chan *gossipv1.SignedVAAWithQuorum, 64)
		setC := make(chan *common.GuardianSet, 1)
		sendC := make(chan []byte, 8192)
		p := NewProcessor(ctx, database, make(chan *common.MessagePublication), setC, sendC, obsvC,
			make(chan *gossipv1.ObservationRequest, 50), make(chan *vaa.VAA), signedInC,
			&ecdsasigner.ECDSAPrivateKey{Value: keys.Key("g1")}, common.NewGuardianSetState(nil),
			reporter.EventListener(zap.NewNop()), nil, phGovChain, phGovEmitter)
		p.logger = zap.NewNop()
		// an entry that is due for a retry: the next cleanup pass re-broadcasts its observation ("probe") on sendC
		old := time.Now().Add(-10 * time.Minute)
		p.state.vaaSignatures["due"] = &vaaState{firstObserved: old, settled: true, ourMsg: []byte("probe"), txHash: []byte{1},
			ourVAA: &vaa.VAA{Version: 1, EmitterChain: 2, Payload: []byte{1}}, signatures: map[ethcommon.Address][]byte{}}
		started := time.Now()
		runDone := make(chan error, 1)
		go func() { runDone <- p.Run(ctx) }()
		setC <- &common.GuardianSet{Index: 0, Keys: []ethcommon.Address{keys.Addr("g1"), keys.Addr("g2"), keys.Addr("g3")}}
		// steady traffic: junk observations and undecodable signed VAAs, several per second
		stopTraffic := make(chan struct{})
		go func() {
			tk := time.NewTicker(200 * time.Millisecond)
			defer tk.Stop()
			for i := 0; ; i++ {
				select {
				case <-stopTraffic:
					return
				case <-tk.C:
					if i%2 == 0 {
						select {
						case obsvC <- &gossipv1.SignedObservation{Addr: keys.Addr("g2").Bytes(), Hash: make([]byte, 32), Signature: make([]byte, 65), MessageId: "x"}:
						default:
						}
					} else {
						select {
						case signedInC <- &gossipv1.SignedVAAWithQuorum{Vaa: nil}:
						default:
						}
					}
				}
			}
		}()
		limit := 90 * time.Second // 30-s period + generous slack for a loaded machine
		gone := false
		deadline := time.After(limit)
	wait:
		for {
			select {
			case m := <-sendC:
				if string(m) == "probe" {
					gone = true
					break wait
				}
			case <-deadline:
				break wait
			}
		}
		el := time.Since(started)
		cancel()
		<-runDone
		// second incarnation: the supervisor re-enters Run on the SAME Processor value after Run ended (aggregation state
		// persists, a fresh tick source is needed): another due entry must be retried by it
		again, el2 := false, time.Duration(0)
		if gone {
			p.state.vaaSignatures["due2"] = &vaaState{firstObserved: time.Now().Add(-10 * time.Minute), settled: true, ourMsg: []byte("probe2"), txHash: []byte{2},
				ourVAA: &vaa.VAA{Version: 1, EmitterChain: 2, Sequence: 2, Payload: []byte{2}}, signatures: map[ethcommon.Address][]byte{}}
			ctx2, cancel2 := context.WithCancel(sctx)
			started2 := time.Now()
			go func() { runDone <- p.Run(ctx2) }()
			deadline2 := time.After(limit)
		wait2:
			for {
				select {
				case m := <-sendC:
					if string(m) == "probe2" {
						again = true
						break wait2
					}
				case <-deadline2:
					break wait2
				}
			}
			el2 = time.Since(started2)
			cancel2()
			<-runDone
		}
		close(stopTraffic)
		fmt.Printf("VERIF-TICKER cleanup_ran=%v after=%.1fs limit=%.0fs restarted_ran=%v after2=%.1fs\n", gone, el.Seconds(), limit.Seconds(), again, el2.Seconds())
		supervisor.Signal(sctx, supervisor.SignalDone)
		return nil
	})
	<-finished
}

// phStallLimit bounds one direct handler call (they take micro- to milliseconds); phStalls counts calls that did not return.
const phStallLimit = 60 * time.Second

var phStalls int

// phStackOf keeps the goroutine blocks of a full stack dump that mention `what` (first 40 lines each).
func phStackOf(dump, what string) string {
	var keep []string
	for _, g := range strings.Split(dump, "\n\n") {
		if strings.Contains(g, what) {
			ls := strings.Split(g, "\n")
			if len(ls) > 40 {
				ls = ls[:40]
			}
			keep = append(keep, strings.Join(ls, "\n"))
		}
	}
	return strings.Join(keep, "\n\n")
}

// phLoopDeaths counts Run loops that ended by themselves (panic / return) in this replay; after a few of them the
// verdict is decided and the remaining histories are not pushed through further dying loops.
var phLoopDeaths int

// phReqCap: capacity of the outbound re-observation request queue of a scenario ("ReqCap" pseudo-step, default large).
func phReqCap(sc vhScenario) int {
	for _, st := range sc.Steps {
		if st.Ev == "ReqCap" {
			return vhInt(st.A, "n", 8192)
		}
	}
	return 8192
}

// start creates the Processor (a fresh one after a Restart step, on the same store) and, in run-loop mode, its Run goroutine.
// phNotifier: a miss notifier that talks to nobody, so that the notification branch of the cleanup pass runs in every
// history (a node in production has one).  The real type can only be constructed by logging in to Discord; this value
// has no channels (nothing is ever sent) and knows the group id of every guardian name the harness can produce, so the
// goroutine the cleanup pass starts never reaches the API client.  Built by reflection: if the type changes shape the
// harness falls back to running without a notifier.
func phNotifier(keys *vhKeys) (n *discord.DiscordNotifier) {
	defer func() {
		if recover() != nil {
			n = nil
		}
	}()
	n = &discord.DiscordNotifier{}
	v := reflect.ValueOf(n).Elem()
	f := v.FieldByName("groupToID")
	if !f.IsValid() || f.Kind() != reflect.Map || !v.FieldByName("chans").IsValid() {
		return nil
	}
	m := map[string]string{}
	for _, pre := range []string{"g", "h", "x", "k", "s"} {
		for i := 0; i <= 40; i++ {
			m[hex.EncodeToString(keys.Addr(fmt.Sprintf("%s%d", pre, i)).Bytes())] = fmt.Sprintf("group-%s%d", pre, i)
		}
	}
	reflect.NewAt(f.Type(), unsafe.Pointer(f.UnsafeAddr())).Elem().Set(reflect.ValueOf(m))
	if lf := v.FieldByName("logger"); lf.IsValid() && lf.Type() == reflect.TypeOf(zap.NewNop()) {
		reflect.NewAt(lf.Type(), unsafe.Pointer(lf.UnsafeAddr())).Elem().Set(reflect.ValueOf(zap.NewNop()))
	}
	return n
}

func (r *phRun) start() {
	w := r.w
	gst := common.NewGuardianSetState(nil)
	r.p = NewProcessor(w.ctx, r.store, r.lockC, r.setC, r.sendC, r.obsvC, r.reqC, r.injectC, r.signedInC,
		&ecdsasigner.ECDSAPrivateKey{Value: w.keys.Key(w.self)}, gst,
		reporter.EventListener(zap.NewNop()), phNotifier(w.keys), phGovChain, phGovEmitter)
	if r.loopMode {
		core, logs := observer.New(zap.InfoLevel)
		r.logs = logs
		r.p.logger = zap.New(core)
		ctx, cancel := context.WithCancel(w.ctx)
		dead := make(chan string, 1)
		r.runDead = dead
		p := r.p
		go func() {
			returned := false
			defer func() {
				if x := recover(); x != nil || !returned {
					dead <- fmt.Sprintf("%v\n%s", x, debug.Stack())
				}
			}()
			err := p.Run(ctx)
			returned = true
			dead <- fmt.Sprintf("Run returned: %v", err)
		}()
		r.deadMu.Lock()
		r.deadMsg = ""
		r.deadMu.Unlock()
		r.stopRun = func() {
			cancel()
			r.deadMu.Lock()
			gone := r.deadMsg != ""
			r.deadMu.Unlock()
			if !gone {
				select {
				case <-dead:
				case <-time.After(5 * time.Second):
				}
			}
			r.stopRun = nil
		}
		// Run creates its 30-s ticker first; once it is in its loop, put a ticker the harness controls in its place
		if r.sync() {
			r.tickerSet = phSetTicker(r.p, &time.Ticker{C: r.tickC})
			r.sync()
		}
	}
}

func (w *phWorld) runScenario(sc vhScenario) {
	r := &phRun{w: w, sc: sc.ID,
		sendC: make(chan []byte, 8192), obsvC: make(chan *gossipv1.SignedObservation, 8192),
		reqC:    make(chan *gossipv1.ObservationRequest, phReqCap(sc)),
		digests: map[string]string{}, ids: map[string]string{}, idVals: map[string]vaa.VAAID{}, txs: map[string]string{},
		loop: map[string][]*gossipv1.SignedObservation{}, signed: map[string][]byte{}, bodies: map[string]*vhVAA{}}
	r.sendOut = r.sendC
	for _, st := range sc.Steps {
		if st.Ev == "SendBusy" {
			// guardiand creates sendC unbuffered; its reader (the p2p loop) is busy publishing most of the time
			r.sendC = make(chan []byte)
			stopFwd := make(chan struct{})
			defer close(stopFwd)
			go func(in chan []byte, outC chan []byte) {
				for {
					r.fwdMu.Lock()
					select {
					case m := <-in:
						outC <- m
						r.fwdMu.Unlock()
					default:
						r.fwdMu.Unlock()
						select {
						case <-stopFwd:
							return
						case <-time.After(200 * time.Microsecond):
						}
					}
				}
			}(r.sendC, r.sendOut)
			break
		}
	}
	store := w.db
	for _, st := range sc.Steps {
		if st.Ev == "StoreDown" { // fault scenarios get a store of their own
			own, err := db.Open(w.t.TempDir())
			if err != nil {
				w.t.Fatal(err)
			}
			r.ownDB, store = own, own
			defer func() {
				if !r.down {
					own.Close()
				}
			}()
			break
		}
	}
	if phStalls >= 3 {
		return // the verdict of this replay is decided; every further stall would cost phStallLimit
	}
	if os.Getenv("VERIF_RUNLOOP") != "" {
		if phLoopDeaths >= 5 {
			return
		}
		r.loopMode = true
		r.lockC = make(chan *common.MessagePublication)
		r.setC = make(chan *common.GuardianSet)
		r.injectC = make(chan *vaa.VAA)
		r.signedInC = make(chan *gossipv1.SignedVAAWithQuorum)
		r.obsvC = make(chan *gossipv1.SignedObservation) // unbuffered: only Run receives
		r.tickC = make(chan time.Time)
		r.runDead = make(chan string, 1)
	}
	r.store = store
	r.start()
	defer func() {
		if r.stopRun != nil {
			r.stopRun()
		}
	}()
	w.trace.Emit(sc.ID, "Reset", map[string]interface{}{"self": w.self}, nil)
	names := make([]string, 0, len(sc.Bodies))
	for d := range sc.Bodies {
		names = append(names, d)
	}
	sort.Strings(names)
	for _, d := range names {
		a := map[string]interface{}{"d": d}
		for k, v := range sc.Bodies[d] {
			a[k] = v
		}
		r.body(a)
	}
	// time spent in steps that completed; the wait that establishes a stall (a step that never returns, a Run loop
	// that takes no more input) is not part of the scenario's own duration
	var el time.Duration
	for _, st := range sc.Steps {
		if r.aborted {
			break
		}
		tb := time.Now()
		r.step(st)
		if !r.aborted {
			el += time.Since(tb)
		}
	}
	if el > 900*time.Millisecond {
		// the eps < 1 s assumption of the time abstraction does not hold for this run: mark it
		w.trace.Emit(sc.ID, "Slow", map[string]interface{}{"ms": el.Milliseconds()}, nil)
	}
}

func TestVerifProcessorReplay(t *testing.T) {
	scPath, trPath := os.Getenv("VERIF_SCENARIOS"), os.Getenv("VERIF_TRACE")
	if scPath == "" || trPath == "" {
		t.Skip("VERIF_SCENARIOS / VERIF_TRACE not set")
	}
	scs, err := vhLoadScenarios(scPath)
	if err != nil {
		t.Fatal(err)
	}
	tr, err := vhOpenTrace(trPath)
	if err != nil {
		t.Fatal(err)
	}
	defer tr.Close()
	database, err := db.Open(t.TempDir())
	if err != nil {
		t.Fatal(err)
	}
	defer database.Close()
	done := make(chan struct{})
	ctx, cancel := context.WithCancel(context.Background())
	defer cancel()
	supervisor.New(ctx, zap.NewNop(), func(ctx context.Context) error {
		w := &phWorld{t: t, ctx: ctx, db: database, keys: vhNewKeys(os.Getenv("VERIF_SEED")), trace: tr, self: "g1"}
		for _, sc := range scs {
			w.runScenario(sc)
		}
		close(done)
		supervisor.Signal(ctx, supervisor.SignalDone)
		return nil
	})
	<-done
	fmt.Printf("VERIF-REPLAYED scenarios=%d lines=%d\n", len(scs), tr.n)
}
