package PKG

// Shared helpers of the /verif conformance harnesses.  This file is injected (package clause
// rewritten) into the package under test through `go test -overlay`; it never exists under /repo.
//
// Everything here is deliberately independent of the code under test: own VAA wire decoder, own body
// serializer, own digest and ecrecover calls, so that the projected state that TLC validates is not
// computed by the functions whose behaviour is being judged.

import (
	"bufio"
	"crypto/ecdsa"
	"crypto/sha256"
	"encoding/binary"
	"encoding/hex"
	"encoding/json"
	"fmt"
	"os"
	"sort"
	"sync"

	ethcommon "github.com/ethereum/go-ethereum/common"
	ethcrypto "github.com/ethereum/go-ethereum/crypto"
)

// ---------------------------------------------------------------- scenarios and traces

type vhStep struct {
	Ev string                 `json:"ev"`
	A  map[string]interface{} `json:"a"`
}

type vhScenario struct {
	ID     int                               `json:"id"`
	Bodies map[string]map[string]interface{} `json:"bodies"`
	Steps  []vhStep                          `json:"steps"`
}

func vhLoadScenarios(path string) ([]vhScenario, error) {
	f, err := os.Open(path)
	if err != nil {
		return nil, err
	}
	defer f.Close()
	var res []vhScenario
	sc := bufio.NewScanner(f)
	sc.Buffer(make([]byte, 1<<20), 1<<28)
	for sc.Scan() {
		line := sc.Bytes()
		if len(line) == 0 {
			continue
		}
		var s vhScenario
		if err := json.Unmarshal(line, &s); err != nil {
			return nil, err
		}
		res = append(res, s)
	}
	return res, sc.Err()
}

type vhTrace struct {
	mu sync.Mutex
	f  *os.File
	w  *bufio.Writer
	n  int
}

func vhOpenTrace(path string) (*vhTrace, error) {
	f, err := os.Create(path)
	if err != nil {
		return nil, err
	}
	return &vhTrace{f: f, w: bufio.NewWriterSize(f, 1<<20)}, nil
}

// Emit writes one trace line {"t":trace,"n":seq,"ev":..,"a":..,"s":..}.
func (t *vhTrace) Emit(trace int, ev string, a interface{}, s interface{}) {
	t.mu.Lock()
	defer t.mu.Unlock()
	t.n++
	if a == nil {
		a = map[string]interface{}{}
	}
	if s == nil {
		s = map[string]interface{}{}
	}
	b, err := json.Marshal(map[string]interface{}{"t": trace, "n": t.n, "ev": ev, "a": a, "s": s})
	if err != nil {
		panic(err)
	}
	t.w.Write(b)
	t.w.WriteByte('\n')
}

func (t *vhTrace) Close() {
	t.mu.Lock()
	defer t.mu.Unlock()
	t.w.Flush()
	t.f.Close()
}

func vhStr(a map[string]interface{}, k string) string {
	if v, ok := a[k]; ok {
		if s, ok := v.(string); ok {
			return s
		}
	}
	return ""
}

func vhInt(a map[string]interface{}, k string, def int) int {
	if v, ok := a[k]; ok {
		if f, ok := v.(float64); ok {
			return int(f)
		}
	}
	return def
}

func vhBool(a map[string]interface{}, k string) bool {
	if v, ok := a[k]; ok {
		if b, ok := v.(bool); ok {
			return b
		}
	}
	return false
}

func vhMap(a map[string]interface{}, k string) map[string]interface{} {
	if v, ok := a[k]; ok {
		if m, ok := v.(map[string]interface{}); ok {
			return m
		}
	}
	return map[string]interface{}{}
}

func vhList(a map[string]interface{}, k string) []interface{} {
	if v, ok := a[k]; ok {
		if m, ok := v.([]interface{}); ok {
			return m
		}
	}
	return nil
}

// vhOpt encodes an optional value as a 0/1-element list (TLC cannot compare a record with a string).
func vhOpt(v interface{}, present bool) []interface{} {
	if !present {
		return []interface{}{}
	}
	return []interface{}{v}
}

// ---------------------------------------------------------------- keys

type vhKeys struct {
	seed   string
	byName map[string]*ecdsa.PrivateKey
	byAddr map[ethcommon.Address]string
}

func vhNewKeys(seed string) *vhKeys {
	return &vhKeys{seed: seed, byName: map[string]*ecdsa.PrivateKey{}, byAddr: map[ethcommon.Address]string{}}
}

func (k *vhKeys) Key(name string) *ecdsa.PrivateKey {
	if p, ok := k.byName[name]; ok {
		return p
	}
	for ctr := 0; ; ctr++ {
		h := sha256.Sum256([]byte(fmt.Sprintf("verif-key|%s|%s|%d", k.seed, name, ctr)))
		p, err := ethcrypto.ToECDSA(h[:])
		if err != nil {
			continue
		}
		k.byName[name] = p
		k.byAddr[ethcrypto.PubkeyToAddress(p.PublicKey)] = name
		return p
	}
}

func (k *vhKeys) Addr(name string) ethcommon.Address {
	return ethcrypto.PubkeyToAddress(k.Key(name).PublicKey)
}

// Name of an address; JUNK when it is not one of the harness's keys.
func (k *vhKeys) Name(a ethcommon.Address) string {
	if n, ok := k.byAddr[a]; ok {
		return n
	}
	return "JUNK"
}

// Recover returns the name of the key that signed `digest` (own ecrecover), ERR when recovery fails.
func (k *vhKeys) Recover(digest []byte, sig []byte) string {
	if len(digest) != 32 || len(sig) != 65 {
		return "ERR"
	}
	pk, err := ethcrypto.Ecrecover(digest, sig)
	if err != nil || len(pk) != 65 {
		return "ERR"
	}
	return k.Name(ethcommon.BytesToAddress(ethcrypto.Keccak256(pk[1:])[12:]))
}

func (k *vhKeys) Sign(name string, digest []byte) []byte {
	s, err := ethcrypto.Sign(digest, k.Key(name))
	if err != nil {
		panic(err)
	}
	return s
}

// ---------------------------------------------------------------- own VAA wire codec

type vhSig struct {
	Index uint8
	Sig   [65]byte
}

type vhVAA struct {
	Version  uint8
	SetIndex uint32
	Sigs     []vhSig
	Ts       uint32
	Nonce    uint32
	EChain   uint16
	TChain   uint16
	Emitter  [32]byte
	Seq      uint64
	CL       uint8
	Payload  []byte
}

func (v *vhVAA) Body() []byte {
	b := make([]byte, 0, 53+len(v.Payload))
	var t [8]byte
	binary.BigEndian.PutUint32(t[:4], v.Ts)
	b = append(b, t[:4]...)
	binary.BigEndian.PutUint32(t[:4], v.Nonce)
	b = append(b, t[:4]...)
	binary.BigEndian.PutUint16(t[:2], v.EChain)
	b = append(b, t[:2]...)
	binary.BigEndian.PutUint16(t[:2], v.TChain)
	b = append(b, t[:2]...)
	b = append(b, v.Emitter[:]...)
	binary.BigEndian.PutUint64(t[:8], v.Seq)
	b = append(b, t[:8]...)
	b = append(b, v.CL)
	b = append(b, v.Payload...)
	return b
}

func vhDigestOfBody(body []byte) []byte {
	return ethcrypto.Keccak256(ethcrypto.Keccak256(body))
}

func (v *vhVAA) Digest() []byte { return vhDigestOfBody(v.Body()) }

func (v *vhVAA) Encode() []byte {
	b := []byte{v.Version}
	var t [4]byte
	binary.BigEndian.PutUint32(t[:], v.SetIndex)
	b = append(b, t[:]...)
	b = append(b, uint8(len(v.Sigs)))
	for _, s := range v.Sigs {
		b = append(b, s.Index)
		b = append(b, s.Sig[:]...)
	}
	return append(b, v.Body()...)
}

func (v *vhVAA) MessageID() string {
	return fmt.Sprintf("%d/%s/%d/%d", v.EChain, hex.EncodeToString(v.Emitter[:]), v.TChain, v.Seq)
}

// vhDecode is the reader the wire format implies: version 1, count byte n, n*66 bytes, 53 fixed body
// bytes, payload = the non-empty rest.  allowEmpty also accepts an empty payload (used to look at
// stored bytes, never as an oracle for the decoder property).
func vhDecode(b []byte, allowEmpty bool) (*vhVAA, error) {
	if len(b) < 6 {
		return nil, fmt.Errorf("short header")
	}
	v := &vhVAA{Version: b[0], SetIndex: binary.BigEndian.Uint32(b[1:5])}
	if v.Version != 1 {
		return nil, fmt.Errorf("version")
	}
	n := int(b[5])
	off := 6
	if len(b) < off+66*n+53 {
		return nil, fmt.Errorf("short")
	}
	for i := 0; i < n; i++ {
		s := vhSig{Index: b[off]}
		copy(s.Sig[:], b[off+1:off+66])
		v.Sigs = append(v.Sigs, s)
		off += 66
	}
	v.Ts = binary.BigEndian.Uint32(b[off:])
	v.Nonce = binary.BigEndian.Uint32(b[off+4:])
	v.EChain = binary.BigEndian.Uint16(b[off+8:])
	v.TChain = binary.BigEndian.Uint16(b[off+10:])
	copy(v.Emitter[:], b[off+12:off+44])
	v.Seq = binary.BigEndian.Uint64(b[off+44:])
	v.CL = b[off+52]
	v.Payload = append([]byte{}, b[off+53:]...)
	if len(v.Payload) == 0 && !allowEmpty {
		return nil, fmt.Errorf("empty payload")
	}
	return v, nil
}

func vhExpand(tag string, n int) []byte {
	out := make([]byte, 0, n)
	for ctr := 0; len(out) < n; ctr++ {
		h := sha256.Sum256([]byte(fmt.Sprintf("%s|%d", tag, ctr)))
		out = append(out, h[:]...)
	}
	return out[:n]
}

func vhSortedKeys(m map[string]interface{}) []string {
	ks := make([]string, 0, len(m))
	for k := range m {
		ks = append(ks, k)
	}
	sort.Strings(ks)
	return ks
}
