package p2p

// Conformance harness for Gossip.tla (C03, heartbeat / observation-request verifiers).
// Injected via -overlay; not part of /repo.

import (
	"encoding/hex"
	"fmt"
	"os"
	"runtime"
	"runtime/debug"
	"sort"
	"strings"
	"sync"
	"sync/atomic"
	"testing"
	"time"

	node_common "github.com/alephium/wormhole-fork/node/pkg/common"
	gossipv1 "github.com/alephium/wormhole-fork/node/pkg/proto/gossip/v1"
	ethcrypto "github.com/ethereum/go-ethereum/crypto"
	"github.com/libp2p/go-libp2p/core/peer"
	"google.golang.org/protobuf/proto"
)

type ghRun struct {
	keys *vhKeys
	gst  *node_common.GuardianSetState
	txs  map[string]string
}

// payload of exactly plen bytes that parses (or not) as the message type of `kind`.
func ghPayload(kind string, plen int, parses bool, req map[string]interface{}, r *ghRun) ([]byte, error) {
	if !parses {
		if plen == 0 {
			return nil, fmt.Errorf("an empty payload always parses")
		}
		b := make([]byte, plen)
		b[0] = 0x0a // field 1, length-delimited ...
		for i := 1; i < plen; i++ {
			b[i] = 0xff // ... with a length that overruns the buffer / never terminates
		}
		return b, nil
	}
	if kind == "hb" {
		switch {
		case plen == 0:
			return []byte{}, nil
		case plen == 1:
			return nil, fmt.Errorf("no 1-byte heartbeat parses")
		case plen-2 < 128:
			return proto.Marshal(&gossipv1.Heartbeat{NodeName: strings.Repeat("n", plen-2)})
		default:
			b, err := proto.Marshal(&gossipv1.Heartbeat{NodeName: strings.Repeat("n", plen-3)})
			if err == nil && len(b) != plen {
				err = fmt.Errorf("cannot hit length %d", plen)
			}
			return b, err
		}
	}
	chain := uint32(vhInt(req, "chain", 2))
	txn := vhStr(req, "tx")
	var m gossipv1.ObservationRequest
	switch {
	case plen == 0:
	case plen == 2 && chain > 0 && chain < 128:
		m.ChainId = chain
	case plen >= 5 && chain > 0 && chain < 128 && plen-4 < 128:
		m.ChainId = chain
		m.TxHash = vhExpand("gtx|"+txn, plen-4)
	default:
		return nil, fmt.Errorf("no request payload of length %d for chain %d", plen, chain)
	}
	if m.TxHash != nil {
		r.txs[hex.EncodeToString(m.TxHash)] = txn
	}
	b, err := proto.Marshal(&m)
	if err == nil && len(b) != plen {
		err = fmt.Errorf("cannot hit length %d (got %d)", plen, len(b))
	}
	return b, err
}

func ghPrefix(dom string) []byte {
	switch dom {
	case "hb":
		return []byte("heartbeat|")
	case "req":
		return []byte("signed_observation_request|")
	}
	return nil
}

func (r *ghRun) table() map[string]interface{} {
	t := map[string]interface{}{}
	for addr, m := range r.gst.GetAll() {
		ps := []string{}
		for id := range m {
			ps = append(ps, string(id))
		}
		sort.Strings(ps)
		if len(ps) > 0 {
			t[r.keys.Name(addr)] = ps
		}
	}
	return t
}

func (r *ghRun) state(fwd []interface{}, verdict string, panicked string) map[string]interface{} {
	var gs []interface{}
	if g := r.gst.Get(); g != nil {
		ks := []interface{}{}
		for _, k := range g.Keys {
			ks = append(ks, r.keys.Name(k))
		}
		gs = vhOpt(map[string]interface{}{"idx": g.Index, "keys": ks}, true)
	} else {
		gs = vhOpt(nil, false)
	}
	s := map[string]interface{}{"gs": gs, "hb": r.table(), "fwd": fwd, "verdict": verdict}
	if panicked != "" {
		s["panic"] = panicked
	}
	return s
}

func TestVerifGossipReplay(t *testing.T) {
	scPath, trPath := os.Getenv("VERIF_SCENARIOS"), os.Getenv("VERIF_TRACE")
	if scPath == "" || trPath == "" {
		t.Skip("VERIF_SCENARIOS / VERIF_TRACE not set")
	}
	scs, err := vhLoadScenarios(scPath)
	if err != nil {
		t.Fatal(err)
	}
	tr, err := vhOpenTrace(trPath)
	if err != nil {
		t.Fatal(err)
	}
	defer tr.Close()
	keys := vhNewKeys(os.Getenv("VERIF_SEED"))
	skipped := 0
	for _, sc := range scs {
		// the table's update channel is read by a consumer that is slow only during a burst: concurrent writers then
		// overlap for certain if the table lets them
		updC := make(chan *gossipv1.Heartbeat)
		updDone := make(chan struct{})
		var slow int32
		go func() {
			for {
				select {
				case <-updC:
					if atomic.LoadInt32(&slow) == 1 {
						time.Sleep(2 * time.Millisecond)
					}
				case <-updDone:
					return
				}
			}
		}()
		r := &ghRun{keys: keys, gst: node_common.NewGuardianSetState(updC), txs: map[string]string{}}
		tr.Emit(sc.ID, "Reset", nil, nil)
		for _, st := range sc.Steps {
			switch st.Ev {
			case "GSetUpdate":
				a := vhMap(st.A, "set")
				gs := &node_common.GuardianSet{Index: uint32(vhInt(a, "idx", 0))}
				for _, k := range vhList(a, "keys") {
					gs.Keys = append(gs.Keys, keys.Addr(k.(string)))
				}
				r.gst.Set(gs)
				tr.Emit(sc.ID, st.Ev, st.A, r.state([]interface{}{}, "", ""))
			case "HeartbeatBurst":
				g := vhStr(st.A, "g")
				gs := r.gst.Get()
				if gs == nil {
					t.Fatalf("burst without a guardian set")
				}
				var wg sync.WaitGroup
				start := make(chan struct{})
				panicked := ""
				var pmu sync.Mutex
				atomic.StoreInt32(&slow, 1)
				for _, pn := range vhList(st.A, "peers") {
					hb, _ := proto.Marshal(&gossipv1.Heartbeat{NodeName: "burst-" + pn.(string) + strings.Repeat("n", 30)})
					sig := keys.Sign(g, ethcrypto.Keccak256(append(append([]byte{}, ghPrefix("hb")...), hb...)))
					env := &gossipv1.SignedHeartbeat{Heartbeat: hb, Signature: sig, GuardianAddr: keys.Addr(g).Bytes()}
					wg.Add(1)
					go func(from peer.ID) {
						defer wg.Done()
						defer func() {
							if x := recover(); x != nil {
								pmu.Lock()
								panicked = fmt.Sprintf("%v\n%s", x, debug.Stack())
								pmu.Unlock()
							}
						}()
						<-start
						processSignedHeartbeat(from, env, gs, r.gst, false)
					}(peer.ID(pn.(string)))
				}
				close(start)
				done := make(chan struct{})
				go func() { wg.Wait(); close(done) }()
				select {
				case <-done:
				case <-time.After(20 * time.Second):
					buf := make([]byte, 1<<16)
					buf = buf[:runtime.Stack(buf, true)]
					tr.Emit(sc.ID, "Stall", st.A, map[string]interface{}{"stacks": string(buf)})
					tr.Close()
					fmt.Printf("VERIF-REPLAYED scenarios=%d lines=%d skipped=%d stalled=1\n", len(scs), tr.n, skipped)
					os.Exit(0)
				}
				atomic.StoreInt32(&slow, 0)
				tr.Emit(sc.ID, st.Ev, st.A, r.state([]interface{}{}, "", panicked))
			case "Heartbeat", "ObsReq":
				e := vhMap(st.A, "e")
				kind := vhStr(e, "kind")
				payload, err := ghPayload(kind, vhInt(e, "plen", 0), vhBool(e, "parses"), vhMap(e, "req"), r)
				if inner := vhStr(e, "inner"); inner != "" && kind == "hb" && vhBool(e, "parses") {
					// the heartbeat BODY names a guardian address too (Heartbeat.guardian_addr): it has no authority,
					// only the envelope address that the signature recovers to counts
					err = fmt.Errorf("cannot hit length %d with an inner address", vhInt(e, "plen", 0))
					for l := 0; l <= vhInt(e, "plen", 0); l++ {
						b, merr := proto.Marshal(&gossipv1.Heartbeat{GuardianAddr: keys.Addr(inner).Hex(), NodeName: strings.Repeat("n", l)})
						if merr == nil && len(b) == vhInt(e, "plen", 0) {
							payload, err = b, nil
							break
						}
					}
				}
				if err != nil {
					skipped++ // the abstract envelope has no concrete counterpart; nothing is executed or logged
					continue
				}
				signed := payload
				if !vhBool(e, "same") {
					signed = append(append([]byte{}, payload...), 0x01)
				}
				digest := ethcrypto.Keccak256(append(append([]byte{}, ghPrefix(vhStr(e, "dom"))...), signed...))
				var sig []byte
				if vhStr(e, "signer") == "ERR" {
					sig = keys.Sign("g1", digest)
					switch vhStr(e, "shape") {
					case "shortsig":
						sig = sig[:64]
					case "nilsig":
						sig = nil
					default:
						sig[64] = 9
					}
				} else {
					sig = keys.Sign(vhStr(e, "signer"), digest)
				}
				addr := keys.Addr(vhStr(e, "claimed")).Bytes()
				switch vhStr(e, "shape") {
				case "niladdr":
					addr = nil
				case "shortaddr":
					addr = addr[:19]
				}
				from := peer.ID(vhStr(e, "peer"))
				fwd := []interface{}{}
				verdict, panicked := "", ""
				done := make(chan struct{})
				go func() {
					defer close(done)
					defer func() {
						if x := recover(); x != nil {
							panicked = fmt.Sprintf("%v\n%s", x, debug.Stack())
						}
					}()
					gs := r.gst.Get() // dispatch of p2p.Run: no guardian set yet => dropped
					if gs == nil {
						verdict = "nogs"
						return
					}
					if kind == "hb" {
						_, err := processSignedHeartbeat(from, &gossipv1.SignedHeartbeat{Heartbeat: payload, Signature: sig, GuardianAddr: addr}, gs, r.gst, false)
						if err != nil {
							verdict = "err"
						} else {
							verdict = "ok"
						}
					} else {
						q, err := processSignedObservationRequest(&gossipv1.SignedObservationRequest{ObservationRequest: payload, Signature: sig, GuardianAddr: addr}, gs)
						if err != nil {
							verdict = "err"
						} else {
							verdict = "ok"
							tx := "?" + hex.EncodeToString(q.TxHash)
							if n, ok := r.txs[hex.EncodeToString(q.TxHash)]; ok {
								tx = n
							}
							if q.TxHash == nil {
								tx = ""
							}
							fwd = append(fwd, map[string]interface{}{"chain": int(q.ChainId), "tx": tx})
						}
					}
				}()
				select {
				case <-done:
				case <-time.After(10 * time.Second):
					// the verifier never returned (it needs microseconds): a stalled gossip loop; nothing after this can be trusted
					buf := make([]byte, 1<<16)
					buf = buf[:runtime.Stack(buf, true)]
					tr.Emit(sc.ID, "Stall", st.A, map[string]interface{}{"stacks": string(buf)})
					tr.Close()
					fmt.Printf("VERIF-REPLAYED scenarios=%d lines=%d skipped=%d stalled=1\n", len(scs), tr.n, skipped)
					os.Exit(0)
				}
				tr.Emit(sc.ID, st.Ev, st.A, r.state(fwd, verdict, panicked))
			default:
				t.Fatalf("unknown event %q", st.Ev)
			}
		}
		close(updDone)
	}
	fmt.Printf("VERIF-REPLAYED scenarios=%d lines=%d skipped=%d\n", len(scs), tr.n, skipped)
}
