package p2p

// Conformance harness for P2PLoop.tla: the real p2p.Run (libp2p host, DHT, GossipSub, receive loop, send loop)
// under a real supervisor, talking to harness peers over the simulated transport of harness/stubs (the multiaddrs of
// the QUIC transport carried over loopback TCP).  Injected via -overlay; not part of /repo.
//
// One p2p.Run per scenario.  A harness peer publishes each scripted message on the node's topic; what the node puts on
// its three output channels is attributed to the message by a tag carried in the message, so the comparison does not
// depend on the order in which pubsub's validation workers release messages.  After every message a marker VAA makes
// two round trips through the same pipeline before the state is read.

import (
	"bytes"
	"context"
	"encoding/hex"
	"fmt"
	"net"
	"os"
	"runtime"
	"sort"
	"strings"
	"sync"
	"testing"
	"time"

	node_common "github.com/alephium/wormhole-fork/node/pkg/common"
	"github.com/alephium/wormhole-fork/node/pkg/ecdsasigner"
	gossipv1 "github.com/alephium/wormhole-fork/node/pkg/proto/gossip/v1"
	"github.com/alephium/wormhole-fork/node/pkg/supervisor"
	ethcrypto "github.com/ethereum/go-ethereum/crypto"
	"github.com/libp2p/go-libp2p"
	pubsub "github.com/libp2p/go-libp2p-pubsub"
	"github.com/libp2p/go-libp2p/core/crypto"
	"github.com/libp2p/go-libp2p/core/host"
	"github.com/libp2p/go-libp2p/core/peer"
	libp2ptls "github.com/libp2p/go-libp2p/p2p/security/tls"
	libp2pquic "github.com/libp2p/go-libp2p/p2p/transport/quic"
	"github.com/multiformats/go-multiaddr"
	"go.uber.org/zap"
	"google.golang.org/protobuf/proto"
)

const lhNet = "/verif/p2ploop"

type lhPeer struct {
	name string
	h    host.Host
	th   *pubsub.Topic
	sub  *pubsub.Subscription
	mu   sync.Mutex
	got  [][]byte // data of messages authored by the node under test
}

type lhOut struct {
	kind string // obs | vaa | req
	tag  string
	req  map[string]interface{}
}

type lhRun struct {
	keys    *vhKeys
	gst     *node_common.GuardianSetState
	obsvC   chan *gossipv1.SignedObservation
	reqC    chan *gossipv1.ObservationRequest
	reqSend chan *gossipv1.ObservationRequest
	sendC   chan []byte
	vaaC    chan *gossipv1.SignedVAAWithQuorum
	nodeID  peer.ID
	peers   map[string]*lhPeer
	peerOf  map[peer.ID]string
	mu      sync.Mutex
	outs    []lhOut
	markers map[string]bool
	txs     map[string]string
	died    chan string
	nmark   int
	lost    int
}

func lhFreePort() int {
	l, err := net.Listen("tcp4", "127.0.0.1:0")
	if err != nil {
		panic(err)
	}
	defer l.Close()
	return l.Addr().(*net.TCPAddr).Port
}

func (r *lhRun) collect(ctx context.Context) {
	for {
		select {
		case <-ctx.Done():
			return
		case o := <-r.obsvC:
			r.mu.Lock()
			r.outs = append(r.outs, lhOut{kind: "obs", tag: o.MessageId})
			r.mu.Unlock()
		case v := <-r.vaaC:
			r.mu.Lock()
			if strings.HasPrefix(string(v.Vaa), "marker-") {
				r.markers[string(v.Vaa)] = true
			} else {
				r.outs = append(r.outs, lhOut{kind: "vaa", tag: string(v.Vaa)})
			}
			r.mu.Unlock()
		case q := <-r.reqC:
			r.mu.Lock()
			r.outs = append(r.outs, lhOut{kind: "req", tag: hex.EncodeToString(q.TxHash), req: r.reqDesc(q)})
			r.mu.Unlock()
		}
	}
}

func (r *lhRun) reqDesc(q *gossipv1.ObservationRequest) map[string]interface{} {
	tx := "?" + hex.EncodeToString(q.TxHash)
	if n, ok := r.txs[hex.EncodeToString(q.TxHash)]; ok {
		tx = n
	}
	return map[string]interface{}{"chain": int(q.ChainId), "tx": tx}
}

func (r *lhRun) newPeer(ctx context.Context, name string, nodePort int) (*lhPeer, error) {
	priv, _, err := crypto.GenerateKeyPair(crypto.Ed25519, -1)
	if err != nil {
		return nil, err
	}
	h, err := libp2p.New(libp2p.Identity(priv), libp2p.ListenAddrStrings(fmt.Sprintf("/ip4/127.0.0.1/udp/%d/quic", lhFreePort())),
		libp2p.Security(libp2ptls.ID, libp2ptls.New), libp2p.Transport(libp2pquic.NewTransport))
	if err != nil {
		return nil, err
	}
	ps, err := pubsub.NewGossipSub(ctx, h)
	if err != nil {
		return nil, err
	}
	th, err := ps.Join(lhNet + "/broadcast")
	if err != nil {
		return nil, err
	}
	sub, err := th.Subscribe()
	if err != nil {
		return nil, err
	}
	p := &lhPeer{name: name, h: h, th: th, sub: sub}
	go func() {
		for {
			m, err := sub.Next(ctx)
			if err != nil {
				return
			}
			if m.GetFrom() == r.nodeID {
				p.mu.Lock()
				p.got = append(p.got, append([]byte{}, m.Data...))
				p.mu.Unlock()
			}
		}
	}()
	ma, _ := multiaddr.NewMultiaddr(fmt.Sprintf("/ip4/127.0.0.1/udp/%d/quic", nodePort))
	// A connection made before the node's GossipSub exists may never be noticed by it (the host listens before
	// p2p.Run creates its pubsub): reconnect every 2 s until the node's subscription is visible.
	t0 := time.Now()
	for {
		if err := h.Connect(ctx, peer.AddrInfo{ID: r.nodeID, Addrs: []multiaddr.Multiaddr{ma}}); err != nil {
			if time.Since(t0) > 20*time.Second {
				return nil, err
			}
			time.Sleep(50 * time.Millisecond)
			continue
		}
		t1 := time.Now()
		for time.Since(t1) < 2*time.Second {
			for _, id := range th.ListPeers() {
				if id == r.nodeID {
					return p, nil
				}
			}
			time.Sleep(5 * time.Millisecond)
		}
		if time.Since(t0) > 30*time.Second {
			return nil, fmt.Errorf("the node never subscribed to the topic")
		}
		_ = h.Network().ClosePeer(r.nodeID)
		time.Sleep(20 * time.Millisecond)
	}
}

// marker: a recognisable VAA message makes n round trips through pubsub and the node's receive loop.  GossipSub is
// best effort (a message published while a stream is being replaced is lost), so a marker that does not arrive within
// a second is published again under a new tag; only 20 s without any arrival is a stall.
func (r *lhRun) marker(ctx context.Context, p *lhPeer, n int) error {
	for i := 0; i < n; i++ {
		t0 := time.Now()
		arrived := false
		for !arrived {
			r.mu.Lock()
			r.nmark++
			tag := fmt.Sprintf("marker-%s-%d", p.name, r.nmark)
			r.mu.Unlock()
			b, _ := proto.Marshal(&gossipv1.GossipMessage{Message: &gossipv1.GossipMessage_SignedVaaWithQuorum{SignedVaaWithQuorum: &gossipv1.SignedVAAWithQuorum{Vaa: []byte(tag)}}})
			if err := p.th.Publish(ctx, b); err != nil {
				return err
			}
			t1 := time.Now()
			for !arrived && time.Since(t1) < time.Second {
				r.mu.Lock()
				arrived = r.markers[tag]
				r.mu.Unlock()
				if arrived {
					break
				}
				select {
				case why := <-r.died:
					r.died <- why
					return fmt.Errorf("run-exit: %s", why)
				default:
				}
				time.Sleep(200 * time.Microsecond)
			}
			if !arrived {
				r.mu.Lock()
				r.lost++
				r.mu.Unlock()
				if time.Since(t0) > 20*time.Second {
					return fmt.Errorf("stall: no message published to the node was taken from its subscription for 20 s")
				}
			}
		}
	}
	return nil
}

func (r *lhRun) table() map[string]interface{} {
	t := map[string]interface{}{}
	for addr, m := range r.gst.GetAll() {
		ps := []string{}
		for id := range m {
			n, ok := r.peerOf[id]
			if !ok {
				n = "?" + id.String()
			}
			ps = append(ps, n)
		}
		sort.Strings(ps)
		if len(ps) > 0 {
			t[r.keys.Name(addr)] = ps
		}
	}
	return t
}

func (r *lhRun) gsState() []interface{} {
	if g := r.gst.Get(); g != nil {
		ks := []interface{}{}
		for _, k := range g.Keys {
			ks = append(ks, r.keys.Name(k))
		}
		return vhOpt(map[string]interface{}{"idx": g.Index, "keys": ks}, true)
	}
	return vhOpt(nil, false)
}

// describe what the node published: raw bytes we handed to it (by tag), or a signed request / heartbeat of its own.
func (r *lhRun) describe(data []byte, sent map[string]string) map[string]interface{} {
	if tag, ok := sent[string(data)]; ok {
		return map[string]interface{}{"kind": "raw", "tag": tag}
	}
	var m gossipv1.GossipMessage
	if err := proto.Unmarshal(data, &m); err != nil {
		return map[string]interface{}{"kind": "raw", "tag": "?undecodable"}
	}
	env := func(kind string, payload, sig, addr []byte) map[string]interface{} {
		d := map[string]interface{}{"kind": kind, "claimed": "JUNK", "signer": "ERR", "dom": "raw", "same": true, "plen": len(payload), "peer": "self"}
		if len(addr) == 20 {
			var a [20]byte
			copy(a[:], addr)
			d["claimed"] = r.keys.Name(a)
		}
		for _, dom := range []string{"hb", "req", "raw"} {
			s := r.keys.Recover(ethcrypto.Keccak256(append(append([]byte{}, ghPrefix(dom)...), payload...)), sig)
			if s != "ERR" && s != "JUNK" {
				d["signer"], d["dom"] = s, dom
				break
			}
			if dom == "raw" {
				d["signer"] = s
			}
		}
		return d
	}
	switch x := m.Message.(type) {
	case *gossipv1.GossipMessage_SignedObservationRequest:
		s := x.SignedObservationRequest
		d := env("req", s.ObservationRequest, s.Signature, s.GuardianAddr)
		var q gossipv1.ObservationRequest
		if err := proto.Unmarshal(s.ObservationRequest, &q); err != nil {
			d["parses"] = false
			d["req"] = map[string]interface{}{"chain": 0, "tx": ""}
		} else {
			d["parses"] = true
			d["req"] = r.reqDesc(&q)
		}
		return d
	case *gossipv1.GossipMessage_SignedHeartbeat:
		s := x.SignedHeartbeat
		d := env("hb", s.Heartbeat, s.Signature, s.GuardianAddr)
		var hb gossipv1.Heartbeat
		d["parses"] = proto.Unmarshal(s.Heartbeat, &hb) == nil
		d["req"] = map[string]interface{}{"chain": 0, "tx": ""}
		return d
	}
	return map[string]interface{}{"kind": "raw", "tag": "?unexpected"}
}

type lhLine struct {
	ev   string
	a    interface{}
	s    map[string]interface{}
	tag  string // outputs carrying this tag belong to this line
	kind string
}

func lhScenario(sc vhScenario, keys *vhKeys) (lines []lhLine, fatal error) {
	ctx, cancel := context.WithCancel(context.Background())
	defer cancel()
	var r *lhRun
	defer func() {
		// lines of a history that ended early still carry the outputs attributed to them
		if fatal == nil && r != nil {
			lhAttribute(r, lines)
		}
	}()
	self := "g1"
	ownHB := false
	for _, st := range sc.Steps {
		if st.Ev == "Config" {
			if s := vhStr(st.A, "self"); s != "" {
				self = s
			}
			ownHB = vhBool(st.A, "own_hb")
		}
	}
	r = &lhRun{keys: keys, gst: node_common.NewGuardianSetState(nil),
		obsvC: make(chan *gossipv1.SignedObservation, 50), reqC: make(chan *gossipv1.ObservationRequest, 50),
		reqSend: make(chan *gossipv1.ObservationRequest, 50), sendC: make(chan []byte), vaaC: make(chan *gossipv1.SignedVAAWithQuorum, 50),
		peers: map[string]*lhPeer{}, peerOf: map[peer.ID]string{}, markers: map[string]bool{}, txs: map[string]string{}, died: make(chan string, 4)}
	priv, _, err := crypto.GenerateKeyPair(crypto.Ed25519, -1)
	if err != nil {
		return nil, err
	}
	r.nodeID, _ = peer.IDFromPrivateKey(priv)
	r.peerOf[r.nodeID] = "self"
	port := lhFreePort()
	nodeName := ""
	if ownHB {
		nodeName = "verif-node"
	}
	go r.collect(ctx)
	rootCancelled := make(chan struct{})
	supervisor.New(ctx, zap.NewNop(), func(ctx context.Context) error {
		run := Run(r.obsvC, r.reqC, r.reqSend, r.sendC, r.vaaC, priv, &ecdsasigner.ECDSAPrivateKey{Value: keys.Key(self)}, r.gst,
			uint(port), lhNet, "", nodeName, false, func() { close(rootCancelled) })
		wrapped := func(ctx context.Context) (err error) {
			defer func() {
				if x := recover(); x != nil {
					buf := make([]byte, 1<<14)
					buf = buf[:runtime.Stack(buf, false)]
					r.died <- fmt.Sprintf("panic: %v\n%s", x, buf)
					err = fmt.Errorf("panic: %v", x)
					return
				}
				if ctx.Err() == nil {
					r.died <- fmt.Sprintf("returned: %v", err)
				}
			}()
			return run(ctx)
		}
		if err := supervisor.Run(ctx, "p2p", wrapped); err != nil {
			return err
		}
		supervisor.Signal(ctx, supervisor.SignalHealthy)
		<-ctx.Done()
		return nil
	})
	// wait for the node's listener
	t0 := time.Now()
	for {
		c, err := net.DialTimeout("tcp4", fmt.Sprintf("127.0.0.1:%d", port), time.Second)
		if err == nil {
			c.Close()
			break
		}
		select {
		case why := <-r.died:
			return nil, fmt.Errorf("p2p.Run ended during start-up: %s", why)
		default:
		}
		if time.Since(t0) > 20*time.Second {
			return nil, fmt.Errorf("p2p.Run did not start listening")
		}
		time.Sleep(2 * time.Millisecond)
	}
	getPeer := func(name string) (*lhPeer, error) {
		if p, ok := r.peers[name]; ok {
			return p, nil
		}
		p, err := r.newPeer(ctx, name, port)
		if err != nil {
			return nil, err
		}
		r.peers[name] = p
		r.peerOf[p.h.ID()] = name
		// warm-up: the first messages after a subscription may be published before the mesh link is usable
		t0 := time.Now()
		for {
			ctxm, cm := context.WithTimeout(ctx, 300*time.Millisecond)
			_ = ctxm
			cm()
			r.mu.Lock()
			r.nmark++
			tag := fmt.Sprintf("marker-%s-%d", name, r.nmark)
			r.mu.Unlock()
			b, _ := proto.Marshal(&gossipv1.GossipMessage{Message: &gossipv1.GossipMessage_SignedVaaWithQuorum{SignedVaaWithQuorum: &gossipv1.SignedVAAWithQuorum{Vaa: []byte(tag)}}})
			_ = p.th.Publish(ctx, b)
			ok := false
			for i := 0; i < 100 && !ok; i++ {
				time.Sleep(time.Millisecond)
				r.mu.Lock()
				ok = r.markers[tag]
				r.mu.Unlock()
			}
			if ok {
				return p, nil
			}
			if time.Since(t0) > 20*time.Second {
				return nil, fmt.Errorf("no message of peer %s reached the node", name)
			}
		}
	}
	defer func() {
		for _, p := range r.peers {
			p.h.Close()
		}
	}()
	p1, err := getPeer("p1")
	if err != nil {
		return nil, err
	}
	if _, err := getPeer("p2"); err != nil {
		return nil, err
	}
	// both links are up before the history starts: three consecutive markers of each peer arrive
	for _, p := range []string{"p1", "p2", "p1", "p2"} {
		if err := r.marker(ctx, r.peers[p], 3); err != nil {
			return nil, err
		}
	}
	r.mu.Lock()
	r.lost = 0
	r.mu.Unlock()
	sent := map[string]string{}
	pubSeen := 0 // how many publications of the node (as seen by p1) earlier lines have accounted for
	nodePubs := func(wait int) []interface{} {
		t0 := time.Now()
		for {
			p1.mu.Lock()
			n := len(p1.got)
			p1.mu.Unlock()
			if n-pubSeen >= wait || time.Since(t0) > 5*time.Second {
				break
			}
			time.Sleep(time.Millisecond)
		}
		p1.mu.Lock()
		defer p1.mu.Unlock()
		res := []interface{}{}
		for _, d := range p1.got[pubSeen:] {
			res = append(res, r.describe(d, sent))
		}
		pubSeen = len(p1.got)
		return res
	}
	waitOut := func(kind, tag string) {
		t0 := time.Now()
		for time.Since(t0) < 3*time.Second {
			r.mu.Lock()
			for _, o := range r.outs {
				if o.kind == kind && o.tag == tag {
					r.mu.Unlock()
					return
				}
			}
			r.mu.Unlock()
			time.Sleep(500 * time.Microsecond)
		}
	}
	seq := 0
	for _, st := range sc.Steps {
		seq++
		switch st.Ev {
		case "Config":
		case "GSetUpdate":
			a := vhMap(st.A, "set")
			gs := &node_common.GuardianSet{Index: uint32(vhInt(a, "idx", 0))}
			for _, k := range vhList(a, "keys") {
				gs.Keys = append(gs.Keys, keys.Addr(k.(string)))
			}
			r.gst.Set(gs)
			lines = append(lines, lhLine{ev: st.Ev, a: st.A, s: map[string]interface{}{"gs": r.gsState(), "hb": r.table(), "pub": nodePubs(0)}})
		case "NetRecv":
			m := vhMap(st.A, "m")
			kind := vhStr(m, "kind")
			tag := fmt.Sprintf("%s-%d-%d", vhStr(m, "tag"), sc.ID, seq)
			var gm gossipv1.GossipMessage
			e := vhMap(m, "e")
			var outKind, outTag string
			switch kind {
			case "obs":
				gm.Message = &gossipv1.GossipMessage_SignedObservation{SignedObservation: &gossipv1.SignedObservation{MessageId: tag, Addr: keys.Addr("g1").Bytes(), Hash: ethcrypto.Keccak256([]byte(tag))}}
				outKind, outTag = "obs", tag
			case "vaa":
				gm.Message = &gossipv1.GossipMessage_SignedVaaWithQuorum{SignedVaaWithQuorum: &gossipv1.SignedVAAWithQuorum{Vaa: []byte(tag)}}
				outKind, outTag = "vaa", tag
			case "none":
			case "hb", "req":
				var payload []byte
				if kind == "hb" {
					hb := &gossipv1.Heartbeat{Timestamp: time.Now().UnixNano()}
					if !vhBool(e, "short") {
						hb.NodeName = "node-of-" + vhStr(e, "claimed") + "-" + tag
						hb.GuardianAddr = keys.Addr(vhStr(e, "claimed")).Hex()
					}
					payload, _ = proto.Marshal(hb)
				} else {
					txb := vhExpand("ltx|"+tag, 32)
					if vhBool(e, "short") {
						txb = txb[:1+seq%3]
					}
					q := &gossipv1.ObservationRequest{ChainId: uint32(vhInt(vhMap(e, "req"), "chain", 2)), TxHash: txb}
					r.txs[hex.EncodeToString(txb)] = vhStr(vhMap(e, "req"), "tx")
					payload, _ = proto.Marshal(q)
					outKind, outTag = "req", hex.EncodeToString(txb)
				}
				if !vhBool(e, "parses") {
					payload = append([]byte{0x0a, 0xff, 0xff, 0xff, 0xff}, payload...)
				}
				e["plen"] = len(payload)
				signed := payload
				if !vhBool(e, "same") {
					signed = append(append([]byte{}, payload...), 0x01)
				}
				digest := ethcrypto.Keccak256(append(append([]byte{}, ghPrefix(vhStr(e, "dom"))...), signed...))
				var sig []byte
				if vhStr(e, "signer") == "ERR" {
					sig = keys.Sign("g1", digest)
					sig[64] = 9
				} else {
					sig = keys.Sign(vhStr(e, "signer"), digest)
				}
				addr := keys.Addr(vhStr(e, "claimed")).Bytes()
				if kind == "hb" {
					gm.Message = &gossipv1.GossipMessage_SignedHeartbeat{SignedHeartbeat: &gossipv1.SignedHeartbeat{Heartbeat: payload, Signature: sig, GuardianAddr: addr}}
				} else {
					gm.Message = &gossipv1.GossipMessage_SignedObservationRequest{SignedObservationRequest: &gossipv1.SignedObservationRequest{ObservationRequest: payload, Signature: sig, GuardianAddr: addr}}
				}
			default:
				return nil, fmt.Errorf("unknown message kind %q", kind)
			}
			b, _ := proto.Marshal(&gm)
			if kind == "none" {
				b = []byte{0x78, byte(seq%100 + 1)} // an unknown field only: decodes, no member of the oneof is set
			}
			if !vhBool(m, "decodes") {
				b = append([]byte{0x0a, 0xff, 0xff, 0xff, byte(seq)}, b...)
				outKind = ""
			}
			from := vhStr(m, "from")
			hint := vhBool(m, "hint")
			var via *lhPeer
			if from == "self" {
				// the node publishes the bytes itself (sendC) and gets them back through its own subscription
				sent[string(b)] = tag
				select {
				case r.sendC <- b:
				case <-time.After(20 * time.Second):
					return nil, fmt.Errorf("stall: the send loop did not take a message from sendC within 20 s")
				}
				lines = append(lines, lhLine{ev: "LocalSend", a: map[string]interface{}{"tag": tag}, s: map[string]interface{}{"gs": r.gsState(), "hb": r.table(), "pub": nodePubs(1)}})
				via = p1
			} else {
				via, err = getPeer(from)
				if err != nil {
					return nil, err
				}
				if err := via.th.Publish(ctx, b); err != nil {
					return nil, err
				}
			}
			if hint && outKind != "" {
				waitOut(outKind, outTag)
			}
			if hint && kind == "hb" {
				t0 := time.Now()
				for time.Since(t0) < 3*time.Second {
					if ps, ok := r.table()[vhStr(e, "claimed")]; ok && strings.Contains(strings.Join(ps.([]string), ","), from) {
						break
					}
					time.Sleep(500 * time.Microsecond)
				}
			}
			if err := r.marker(ctx, via, 2); err != nil {
				lines = append(lines, lhLine{ev: "Broken", a: st.A, s: map[string]interface{}{"why": err.Error()}})
				return lines, nil
			}
			m["tag"] = tag
			lines = append(lines, lhLine{ev: "NetRecv", a: map[string]interface{}{"m": m}, kind: outKind, tag: outTag,
				s: map[string]interface{}{"gs": r.gsState(), "hb": r.table(), "pub": nodePubs(0)}})
		case "LocalReq":
			q := vhMap(st.A, "req")
			tag := fmt.Sprintf("lreq-%d-%d", sc.ID, seq)
			txb := vhExpand("ltx|"+tag, vhInt(st.A, "txlen", 32))
			r.txs[hex.EncodeToString(txb)] = vhStr(q, "tx")
			msg := &gossipv1.ObservationRequest{ChainId: uint32(vhInt(q, "chain", 2)), TxHash: txb}
			pl, _ := proto.Marshal(msg)
			select {
			case r.reqSend <- msg:
			case <-time.After(20 * time.Second):
				return nil, fmt.Errorf("stall: the send loop did not take a request from obsvReqSendC within 20 s")
			}
			waitOut("req", hex.EncodeToString(txb))
			pubs := nodePubs(1)
			if err := r.marker(ctx, p1, 2); err != nil {
				lines = append(lines, lhLine{ev: "Broken", a: st.A, s: map[string]interface{}{"why": err.Error()}})
				return lines, nil
			}
			pubs = append(pubs, nodePubs(0)...)
			st.A["plen"] = len(pl)
			st.A["self"] = self
			lines = append(lines, lhLine{ev: "LocalReq", a: st.A, kind: "req", tag: hex.EncodeToString(txb),
				s: map[string]interface{}{"gs": r.gsState(), "hb": r.table(), "pub": pubs}})
		case "OwnHeartbeat":
			// the node's own heartbeat (every 15 s when it has a node name): recorded in its own table, published signed
			t0 := time.Now()
			var pubs []interface{}
			for time.Since(t0) < 40*time.Second {
				pubs = nodePubs(1)
				if len(pubs) > 0 {
					break
				}
			}
			if err := r.marker(ctx, p1, 2); err != nil {
				lines = append(lines, lhLine{ev: "Broken", a: st.A, s: map[string]interface{}{"why": err.Error()}})
				return lines, nil
			}
			lines = append(lines, lhLine{ev: "OwnHeartbeat", a: map[string]interface{}{"self": self}, s: map[string]interface{}{"gs": r.gsState(), "hb": r.table(), "pub": pubs}})
		default:
			return nil, fmt.Errorf("unknown event %q", st.Ev)
		}
		select {
		case why := <-r.died:
			lines = append(lines, lhLine{ev: "RunExit", a: st.A, s: map[string]interface{}{"why": why}})
			return lines, nil
		default:
		}
	}
	// settle, then attribute every output to the line whose message carried its tag
	if err := r.marker(ctx, p1, 3); err != nil {
		lines = append(lines, lhLine{ev: "Broken", a: map[string]interface{}{}, s: map[string]interface{}{"why": err.Error()}})
		return lines, nil
	}
	stray := lhAttribute(r, lines)
	lines = append(lines, lhLine{ev: "End", a: map[string]interface{}{}, s: map[string]interface{}{"gs": r.gsState(), "hb": r.table(), "stray": stray, "pub": nodePubs(0), "lost_markers": r.lost}})
	_ = bytes.Equal
	return lines, nil
}

// lhAttribute gives every line the outputs whose tag its message carried (once); returns the outputs nobody claimed.
func lhAttribute(r *lhRun, lines []lhLine) []interface{} {
	r.mu.Lock()
	outs := append([]lhOut{}, r.outs...)
	r.mu.Unlock()
	used := make([]bool, len(outs))
	for i := range lines {
		if _, done := lines[i].s["obs"]; done || lines[i].ev == "Broken" || lines[i].ev == "RunExit" {
			continue
		}
		obs, vaa, fwd := []interface{}{}, []interface{}{}, []interface{}{}
		for j, o := range outs {
			if used[j] || lines[i].tag == "" || o.kind != lines[i].kind || o.tag != lines[i].tag {
				continue
			}
			used[j] = true
			switch o.kind {
			case "obs":
				obs = append(obs, o.tag)
			case "vaa":
				vaa = append(vaa, o.tag)
			case "req":
				fwd = append(fwd, o.req)
			}
		}
		lines[i].s["obs"], lines[i].s["vaa"], lines[i].s["fwd"] = obs, vaa, fwd
	}
	stray := []interface{}{}
	for j, o := range outs {
		if !used[j] {
			stray = append(stray, map[string]interface{}{"kind": o.kind, "tag": o.tag})
		}
	}
	return stray
}

func TestVerifP2PLoop(t *testing.T) {
	scPath, trPath := os.Getenv("VERIF_SCENARIOS"), os.Getenv("VERIF_TRACE")
	if scPath == "" || trPath == "" {
		t.Skip("VERIF_SCENARIOS / VERIF_TRACE not set")
	}
	scs, err := vhLoadScenarios(scPath)
	if err != nil {
		t.Fatal(err)
	}
	tr, err := vhOpenTrace(trPath)
	if err != nil {
		t.Fatal(err)
	}
	defer tr.Close()
	type res struct {
		lines []lhLine
		err   error
	}
	results := make([]res, len(scs))
	sem := make(chan struct{}, 6)
	var wg sync.WaitGroup
	for i := range scs {
		wg.Add(1)
		go func(i int) {
			defer wg.Done()
			sem <- struct{}{}
			defer func() { <-sem }()
			keys := vhNewKeys(os.Getenv("VERIF_SEED")) // key tables are not shared between concurrent scenarios
			l, err := lhScenario(scs[i], keys)
			results[i] = res{l, err}
		}(i)
	}
	wg.Wait()
	broken := 0
	for i, sc := range scs {
		tr.Emit(sc.ID, "Reset", nil, nil)
		if results[i].err != nil {
			fmt.Printf("VERIF-LOOP-ERROR scenario=%d %v\n", sc.ID, results[i].err)
			tr.Emit(sc.ID, "Broken", nil, map[string]interface{}{"why": results[i].err.Error()})
			broken++
			continue
		}
		for _, ln := range results[i].lines {
			tr.Emit(sc.ID, ln.ev, ln.a, ln.s)
		}
	}
	fmt.Printf("VERIF-REPLAYED scenarios=%d lines=%d broken=%d\n", len(scs), tr.n, broken)
}
