package processor

// explorer-backend part of the format harness (C06, C07): the explorer links
// node@v0.0.0-20240818215257-cb0667c4f6c1 from the module cache, not /repo/node, so the same vectors are
// run against THAT VerifySignatures / CalculateQuorum and against the explorer's own gate verifyVAA.

import (
	nodeproc "github.com/alephium/wormhole-fork/node/pkg/processor"
	"github.com/alephium/wormhole-fork/node/pkg/vaa"
	ethcommon "github.com/ethereum/go-ethereum/common"
)

func init() {
	vfQuorumFn = nodeproc.CalculateQuorum
	vfExplorerVerifyFn = func(v *vaa.VAA, addrs []ethcommon.Address) bool { return verifyVAA(v, addrs) == nil }
}
