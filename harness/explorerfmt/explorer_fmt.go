package processor

// explorer-backend part of the format harness (C06, C07).  The explorer links
// node@v0.0.0-20240818215257-cb0667c4f6c1 from the module cache, not /repo/node, so the same vectors are run
// against THAT VerifySignatures / CalculateQuorum, and against the explorer's own gate.
//
// The gate is driven through the EXPORTED path only, wired the way explorer-backend/main.go wires it:
// guardiansets.NewGuardianSets(list of sets) -> NewVAAGossipConsumer(sets, deduplicator, queue, logger) -> Push.
// A VAA counts as accepted iff Push returns nil AND the message is on the queue.  (The unexported helper
// verifyVAA is deliberately not referenced: a change of its signature must not break this harness.)
// The deduplicator gets an in-memory cache that is emptied before every Push, so that the verdict of one
// evaluation never depends on an earlier one (main.go uses an asynchronous ristretto cache).

import (
	"context"
	"time"

	"github.com/alephium/wormhole-fork/explorer-backend/deduplicator"
	"github.com/alephium/wormhole-fork/explorer-backend/guardiansets"
	"github.com/alephium/wormhole-fork/node/pkg/common"
	nodeproc "github.com/alephium/wormhole-fork/node/pkg/processor"
	"github.com/alephium/wormhole-fork/node/pkg/vaa"
	"github.com/eko/gocache/v3/store"
	ethcommon "github.com/ethereum/go-ethereum/common"
	"go.uber.org/zap"
)

type vfMemCache struct{ m map[any]bool }

func (c *vfMemCache) Get(ctx context.Context, key any) (bool, error) { return c.m[key], nil }
func (c *vfMemCache) Set(ctx context.Context, key any, object bool, options ...store.Option) error {
	c.m[key] = object
	return nil
}
func (c *vfMemCache) Delete(ctx context.Context, key any) error { delete(c.m, key); return nil }
func (c *vfMemCache) Invalidate(ctx context.Context, options ...store.InvalidateOption) error {
	return nil
}
func (c *vfMemCache) Clear(ctx context.Context) error { c.m = map[any]bool{}; return nil }
func (c *vfMemCache) GetType() string                 { return "verif-mem" }

var vfExplCache = &vfMemCache{m: map[any]bool{}}

// vfExplorerPush: sets[i] is the key list of guardian set i (the last one is the current set); the VAA is
// pushed naming set `named`.
func vfExplorerPush(v *vaa.VAA, sets [][]ethcommon.Address, named int) bool {
	ctx := context.Background()
	list := make([]*common.GuardianSet, len(sets))
	for i, ks := range sets {
		list[i] = &common.GuardianSet{Index: uint32(i), Keys: ks}
	}
	gsC := make(chan *common.GuardianSet, 8)
	gs := guardiansets.NewGuardianSets(list, "", zap.NewNop(), time.Hour, ethcommon.Address{}, gsC)
	queue := make(chan *Message, 8)
	vfExplCache.Clear(ctx)
	c := NewVAAGossipConsumer(gs, deduplicator.New(vfExplCache, zap.NewNop()), queue, zap.NewNop())
	w := *v
	w.GuardianSetIndex = uint32(named)
	b, err := w.Marshal()
	if err != nil {
		panic(err)
	}
	err = c.Push(ctx, &w, b)
	return err == nil && len(queue) == 1
}

func init() {
	vfQuorumFn = nodeproc.CalculateQuorum
	vfExplorerPushFn = vfExplorerPush
}
