package ethereum

// Conformance harness for EvmChain.tla + EvmWatcher.tla (property C10).  Injected via -overlay into
// node/pkg/ethereum; not part of /repo.
//
// The REAL Watcher.Run dials a fake JSON-RPC node (go-ethereum's rpc.Server on a loopback websocket).
// One mutex (evNode.mu) is the linearization point of everything that is recorded:
//   - every served RPC is logged together with its response,
//   - scripted environment changes (new head, reorg, receipt moved / dropped / failed, one RPC error)
//     are applied and logged between requests,
//   - messages the watcher put on its output channel are logged before the next event of the same
//     goroutine (the channel is buffered and drained at the start of every logged event),
//   - the start and the end of each per-head scan are observed through the watcher's own logger
//     (a zap core; synchronous callback in the scanning goroutine), the end together with the key set
//     of w.pending read under w.pendingMu.
// Discipline that makes every served call attributable to one process of Watcher.Run: logs are pushed
// and re-observation requests are issued only when the watcher is quiet; while a re-observation is in
// flight the block poller's request is parked (not served), so every head read belongs to the
// re-observation handler.

import (
	"bufio"
	"context"
	"crypto/sha256"
	"encoding/binary"
	"encoding/hex"
	"encoding/json"
	"fmt"
	"math/big"
	"net/http/httptest"
	"os"
	"reflect"
	"runtime/debug"
	"sort"
	"strconv"
	"strings"
	"sync"
	"sync/atomic"
	"testing"
	"time"
	"unsafe"

	ethabi "github.com/ethereum/go-ethereum/accounts/abi"
	ethcommon "github.com/ethereum/go-ethereum/common"
	"github.com/ethereum/go-ethereum/common/hexutil"
	ethtypes "github.com/ethereum/go-ethereum/core/types"
	ethcrypto "github.com/ethereum/go-ethereum/crypto"
	ethrpc "github.com/ethereum/go-ethereum/rpc"
	"go.uber.org/zap"
	"go.uber.org/zap/zapcore"

	"github.com/alephium/wormhole-fork/node/pkg/common"
	wabi "github.com/alephium/wormhole-fork/node/pkg/ethereum/abi"
	gossipv1 "github.com/alephium/wormhole-fork/node/pkg/proto/gossip/v1"
	"github.com/alephium/wormhole-fork/node/pkg/readiness"
	"github.com/alephium/wormhole-fork/node/pkg/supervisor"
	"github.com/alephium/wormhole-fork/node/pkg/vaa"
)

const (
	evDeadline = 20 * time.Second // >= 1000x the nominal latency of any awaited step (ms)
	evSlow     = 3 * time.Second  // a scenario with a single wait longer than this is discarded (timeouts of the code are 5 s and 15 s)
	evTimeBase = 1700000000
)

// ---------------------------------------------------------------- scenarios

type evLogSpec struct {
	Core   bool   `json:"core"`
	Topic  bool   `json:"topic"`
	Sender string `json:"sender"`
	Seq    int    `json:"seq"`
	CL     int    `json:"cl"`
	Null   bool   `json:"null"` // the receipt's log list has a null entry here (never a message, never delivered)
}

type evMid struct {
	After int      `json:"after"`
	Steps []evStep `json:"steps"`
}

type evStep struct {
	Ev  string                 `json:"ev"`
	A   map[string]interface{} `json:"a"`
	Mid []evMid                `json:"mid"`
}

type evScenario struct {
	ID  int `json:"id"`
	Cfg struct {
		Fin bool   `json:"fin"`
		W   int    `json:"W"`
		NF  string `json:"nf"` // "error": a missing receipt is answered with the error "not found"; else null
	} `json:"cfg"`
	Init struct {
		Latest int `json:"latest"`
		Final  int `json:"final"`
	} `json:"init"`
	Steps []evStep `json:"steps"`
}

func evLoad(path string) ([]evScenario, error) {
	f, err := os.Open(path)
	if err != nil {
		return nil, err
	}
	defer f.Close()
	var res []evScenario
	sc := bufio.NewScanner(f)
	sc.Buffer(make([]byte, 1<<20), 1<<28)
	for sc.Scan() {
		if len(sc.Bytes()) == 0 {
			continue
		}
		var s evScenario
		if err := json.Unmarshal(sc.Bytes(), &s); err != nil {
			return nil, err
		}
		res = append(res, s)
	}
	return res, sc.Err()
}

// ---------------------------------------------------------------- the fake node

type evRcpt struct {
	status uint64
	n      uint64
	g      int
}

type evNode struct {
	mu sync.Mutex
	tr *vhTrace
	sc int

	// chain (EvmChain.tla)
	latest, final uint64
	variant       map[uint64]int
	txs           map[string][]evLogSpec
	rcpt          map[string]*evRcpt
	armed         map[string]string // call kind -> error text class of the one-shot transient failure
	nfErr         bool              // a missing receipt is answered with the error "not found" instead of a null result

	// naming
	txName  map[ethcommon.Hash]string
	blkName map[ethcommon.Hash][2]int
	sndName map[ethcommon.Address]string

	contract, other ethcommon.Address
	abi             ethabi.ABI
	chainID         vaa.ChainID

	// log subscription
	notifier   *ethrpc.Notifier
	subID      ethrpc.ID
	subscribed bool
	critAddr   []ethcommon.Address
	critTopics [][]ethcommon.Hash

	// watcher bookkeeping
	w        *Watcher
	msgC     chan *common.MessagePublication
	initDone bool
	initTag  string
	initHead uint64
	pollTag  string
	pl       uint64
	emitted  int
	started  int
	done     int
	phase    int // 0 normal, 2 re-observation in flight
	parkWant bool
	isParked bool
	parkCh   chan struct{}
	unpark   bool // a held poll has been released and not yet served
	ended    bool
	// restarts of Run on the same Watcher (RunRestart): connections of a Run that has returned are dead, whatever
	// still arrives on them is answered with an error and not recorded
	seenPeer    map[string]bool
	deadPeer    map[string]bool
	restartWant bool // the harness has scripted a fatal RPC error: Run is expected to return and be restarted
	restarted   int
	pollFails   int  // further poll failures to arm (three in a row make the poller give up)
	pollDue     bool // mirror of EvmWatcher!pon: a log has been stored and no scan has left pending empty since
	comp        string
	// log hand-over with the block-by-hash reply held back (PushLog step with "hold"): the reply is gated until
	// the watcher has polled and scanned the heads scripted for the gap (or the poller is seen idle)
	holdWant    bool
	holdArrived bool
	holdCh      chan struct{}
	stalled     bool // a Stall line was recorded in this scenario
	// re-observation step: request 0 is the scripted one, request 1 the sentinel (transaction "tS": one deep
	// message of the core contract in block 1, mined by the harness at the start of every scenario).  Whatever
	// calls the handler makes and in whatever order, a request is over when the next one is accepted, and the
	// sentinel is over when its message has arrived on the output channel.
	rTx      [2]string
	rStarted [2]bool
	rHeadOK  [2]bool // a head read was served for this request
	rRcptOK  [2]bool // a receipt read was served for this request
	rMid     []evStep
	rStash   map[string]string // failures armed for re-observation calls, set aside while the sentinel runs
	sFwd     int               // sentinel messages seen on the output channel
	mid      []evMid
	nRcpt    int
	slow     bool
	broken   string
	calls    int
}

func evHash(parts ...interface{}) ethcommon.Hash {
	return ethcommon.Hash(sha256.Sum256([]byte(fmt.Sprint(parts...))))
}

func (n *evNode) txHash(name string) ethcommon.Hash {
	h := evHash("tx|", n.sc, "|", name)
	n.txName[h] = name
	return h
}

func (n *evNode) blkHash(num uint64, g int) ethcommon.Hash {
	h := evHash("blk|", n.sc, "|", num, "|", g)
	n.blkName[h] = [2]int{int(num), g}
	return h
}

func (n *evNode) sender(name string) ethcommon.Address {
	h := evHash("sender|", name)
	a := ethcommon.BytesToAddress(h[:20])
	n.sndName[a] = name
	return a
}

func (n *evNode) canon(num uint64) int { return n.variant[num] }

func evBlkTime(num uint64, g int) uint64 { return evTimeBase + num*100 + uint64(g) }

func (n *evNode) headFor(tag string) (uint64, bool) {
	switch tag {
	case "latest":
		return n.latest, true
	case "finalized", "safe":
		return n.final, true
	}
	if v, err := hexutil.DecodeUint64(tag); err == nil {
		return v, true
	}
	return 0, false
}

// deterministic content of a message log
func evPayload(tx string, l evLogSpec) []byte {
	return vhExpand(fmt.Sprint("payload|", tx, "|", l.Sender, "|", l.Seq), 1+(l.Seq*7)%90)
}
func evNonce(tx string, l evLogSpec) uint32 {
	h := evHash("nonce|", tx, "|", l.Seq)
	return binary.BigEndian.Uint32(h[:4])
}
func evTarget(l evLogSpec) uint16 { return uint16(1 + (l.Seq*13)%60) }

var evOtherTopic = ethcrypto.Keccak256Hash([]byte("LogSomethingElse(address,uint16,uint64,uint32,bytes,uint8)"))

func (n *evNode) concreteLog(tx string, idx int, r *evRcpt) *ethtypes.Log {
	l := n.txs[tx][idx]
	ev := n.abi.Events["LogMessagePublished"]
	data, err := ev.Inputs.NonIndexed().Pack(evTarget(l), uint64(l.Seq), evNonce(tx, l), evPayload(tx, l), uint8(l.CL))
	if err != nil {
		panic(err)
	}
	addr := n.contract
	if !l.Core {
		addr = n.other
	}
	t0 := ev.ID
	if !l.Topic {
		t0 = evOtherTopic
	}
	return &ethtypes.Log{
		Address: addr, Topics: []ethcommon.Hash{t0, ethcommon.BytesToHash(n.sender(l.Sender).Bytes())}, Data: data,
		BlockNumber: r.n, TxHash: n.txHash(tx), TxIndex: 0, BlockHash: n.blkHash(r.n, r.g), Index: uint(idx),
	}
}

func (n *evNode) matches(l *ethtypes.Log) bool {
	if len(n.critAddr) > 0 {
		ok := false
		for _, a := range n.critAddr {
			ok = ok || a == l.Address
		}
		if !ok {
			return false
		}
	}
	for i, alts := range n.critTopics {
		if len(alts) == 0 {
			continue
		}
		if i >= len(l.Topics) {
			return false
		}
		ok := false
		for _, t := range alts {
			ok = ok || t == l.Topics[i]
		}
		if !ok {
			return false
		}
	}
	return true
}

// ---- logging (always under n.mu)

func (n *evNode) emit(ev string, a map[string]interface{}, s map[string]interface{}) {
	if n.ended {
		return // the scenario is over; what the watcher does while it is being torn down is not recorded
	}
	if a == nil {
		a = map[string]interface{}{}
	}
	if s == nil {
		s = map[string]interface{}{}
	}
	n.tr.Emit(n.sc, ev, a, s)
	// every line reaches the file at once: if the code under test crashes the process, the history up to the crash is on record
	n.tr.mu.Lock()
	n.tr.w.Flush()
	n.tr.mu.Unlock()
}

func evBlk(num uint64, g int) []int { return []int{int(num), g} }

// drain logs the messages the watcher has put on its output channel since the last logged event.
func (n *evNode) drain() {
	for {
		select {
		case m := <-n.msgC:
			d := n.describe(m)
			if d["tx"] == "tS" {
				n.sFwd++
			}
			n.emit("Forward", d, nil)
		default:
			return
		}
	}
}

func (n *evNode) describe(m *common.MessagePublication) map[string]interface{} {
	tx, ok := n.txName[m.TxHash]
	if !ok {
		tx = "?" + m.TxHash.Hex()
	}
	snd := "?"
	var a20 ethcommon.Address
	copy(a20[:], m.EmitterAddress[12:])
	if s, ok := n.sndName[a20]; ok && m.EmitterAddress == PadAddress(a20) {
		snd = s
	}
	t := uint64(m.Timestamp.Unix())
	blk := []int{-1, -1}
	if t >= evTimeBase {
		blk = []int{int((t - evTimeBase) / 100), int((t - evTimeBase) % 100)}
	}
	intact := m.EmitterChain == n.chainID
	found := false
	for _, l := range n.txs[tx] {
		if l.Core && l.Topic && l.Sender == snd && uint64(l.Seq) == m.Sequence {
			found = true
			intact = intact && m.Nonce == evNonce(tx, l) && string(m.Payload) == string(evPayload(tx, l)) &&
				uint16(m.TargetChain) == evTarget(l)
		}
	}
	if !found {
		// a message that corresponds to no message log of the core contract: describe what it claims
		for _, l := range n.txs[tx] {
			if l.Sender == snd && uint64(l.Seq) == m.Sequence {
				found = true
			}
		}
	}
	return map[string]interface{}{"tx": tx, "blk": blk, "sender": snd, "seq": int(m.Sequence), "cl": int(m.ConsistencyLevel), "intact": intact}
}

// evPendingEntry is a field-by-name view of one entry of the watcher's pending map.  The map is read by reflection so
// that a change which moves a component between the key and the value (or renames one) leaves the harness building:
// such a change has to be judged by the behaviour it causes, not end as "cannot decide".
type evPendingEntry struct {
	TxHash, BlockHash ethcommon.Hash
	EmitterAddress    vaa.Address
	Sequence          uint64
	height            uint64
	ptr               uintptr
}

func evField(v reflect.Value, names ...string) (reflect.Value, bool) {
	for v.Kind() == reflect.Ptr || v.Kind() == reflect.Interface {
		if v.IsNil() {
			return reflect.Value{}, false
		}
		v = v.Elem()
	}
	if v.Kind() != reflect.Struct {
		return reflect.Value{}, false
	}
	for _, nm := range names {
		f := v.FieldByNameFunc(func(s string) bool { return strings.EqualFold(s, nm) })
		if f.IsValid() {
			if !f.CanInterface() && f.CanAddr() {
				f = reflect.NewAt(f.Type(), unsafe.Pointer(f.UnsafeAddr())).Elem()
			}
			return f, true
		}
	}
	return reflect.Value{}, false
}

// evPending lists the pending map (caller holds no lock).
func evPending(w *Watcher) []evPendingEntry {
	w.pendingMu.Lock()
	defer w.pendingMu.Unlock()
	var res []evPendingEntry
	mv := reflect.ValueOf(w.pending)
	if mv.Kind() != reflect.Map {
		return nil
	}
	it := mv.MapRange()
	for it.Next() {
		kc := reflect.New(it.Key().Type()).Elem()
		kc.Set(it.Key())
		val := it.Value()
		var e evPendingEntry
		if val.Kind() == reflect.Ptr && !val.IsNil() {
			e.ptr = val.Pointer()
		} else {
			vc := reflect.New(val.Type()).Elem()
			vc.Set(val)
			val = vc
		}
		get := func(dst interface{}, names ...string) {
			for _, src := range []reflect.Value{kc, val} {
				if f, ok := evField(src, names...); ok && f.Type() == reflect.TypeOf(dst).Elem() {
					reflect.ValueOf(dst).Elem().Set(f)
					return
				}
			}
		}
		get(&e.TxHash, "TxHash")
		get(&e.BlockHash, "BlockHash")
		get(&e.EmitterAddress, "EmitterAddress")
		get(&e.Sequence, "Sequence")
		get(&e.height, "height")
		res = append(res, e)
	}
	return res
}

func (n *evNode) pendingKeys() []interface{} {
	type raw struct {
		key    evPendingEntry
		height uint64
	}
	var raws []raw
	for _, e := range evPending(n.w) {
		raws = append(raws, raw{e, e.height})
	}
	type k struct {
		tx          string
		n, g        int
		snd         string
		seq, height int
	}
	var ks []k
	n.mu.Lock()
	for _, rw := range raws {
		key := rw.key
		tx, ok := n.txName[key.TxHash]
		if !ok {
			tx = "?" + key.TxHash.Hex()
		}
		b, ok := n.blkName[key.BlockHash]
		if !ok {
			b = [2]int{-1, -1}
		}
		var a20 ethcommon.Address
		copy(a20[:], key.EmitterAddress[12:])
		snd, ok := n.sndName[a20]
		if !ok {
			snd = "?"
		}
		ks = append(ks, k{tx, b[0], b[1], snd, int(key.Sequence), int(rw.height)})
	}
	n.mu.Unlock()
	sort.Slice(ks, func(i, j int) bool {
		return fmt.Sprint(ks[i]) < fmt.Sprint(ks[j])
	})
	res := []interface{}{}
	for _, x := range ks {
		res = append(res, map[string]interface{}{"tx": x.tx, "blk": []int{x.n, x.g}, "sender": x.snd, "seq": x.seq, "height": x.height})
	}
	return res
}

// ---- environment steps (under n.mu)

func (n *evNode) applyEnv(st evStep) {
	a := st.A
	switch st.Ev {
	case "NewHead":
		l, f := uint64(vhInt(a, "latest", 0)), uint64(vhInt(a, "final", 0))
		if l < n.latest {
			l = n.latest
		}
		if f < n.final {
			f = n.final
		}
		if f > l {
			f = l
		}
		n.latest, n.final = l, f
		n.emit("NewHead", map[string]interface{}{"latest": int(l), "final": int(f)}, nil)
	case "Mine":
		tx := vhStr(a, "tx")
		num := uint64(vhInt(a, "n", 1))
		if _, ok := n.txs[tx]; ok || num < 1 || num > n.latest {
			return
		}
		var logs []evLogSpec
		b, _ := json.Marshal(a["logs"])
		json.Unmarshal(b, &logs)
		n.txs[tx] = logs
		n.txHash(tx)
		for _, l := range logs {
			n.sender(l.Sender)
		}
		n.rcpt[tx] = &evRcpt{status: uint64(vhInt(a, "status", 1)), n: num, g: n.canon(num)}
		n.blkHash(num, n.canon(num))
		ll := []interface{}{}
		for _, l := range logs {
			ll = append(ll, map[string]interface{}{"core": l.Core, "topic": l.Topic, "sender": l.Sender, "seq": l.Seq, "cl": l.CL})
		}
		n.emit("Mine", map[string]interface{}{"tx": tx, "n": int(num), "status": vhInt(a, "status", 1), "logs": ll}, nil)
	case "Reorg":
		num := uint64(vhInt(a, "n", 0))
		if num < 1 || num > n.latest {
			return
		}
		g := n.canon(num)
		for tx, r := range n.rcpt {
			if r.n == num && r.g == g {
				delete(n.rcpt, tx)
			}
		}
		n.variant[num] = g + 1
		n.blkHash(num, g+1)
		n.emit("Reorg", map[string]interface{}{"n": int(num)}, nil)
	case "Remine":
		tx := vhStr(a, "tx")
		num := uint64(vhInt(a, "n", 0))
		if _, ok := n.txs[tx]; !ok || n.rcpt[tx] != nil || num < 1 || num > n.latest {
			return
		}
		n.rcpt[tx] = &evRcpt{status: uint64(vhInt(a, "status", 1)), n: num, g: n.canon(num)}
		n.blkHash(num, n.canon(num))
		n.emit("Remine", map[string]interface{}{"tx": tx, "n": int(num), "status": vhInt(a, "status", 1)}, nil)
	case "DropReceipt":
		tx := vhStr(a, "tx")
		if n.rcpt[tx] == nil {
			return
		}
		delete(n.rcpt, tx)
		n.emit("DropReceipt", map[string]interface{}{"tx": tx}, nil)
	case "FailTx":
		tx := vhStr(a, "tx")
		if n.rcpt[tx] == nil {
			return
		}
		n.rcpt[tx].status = 0
		n.emit("FailTx", map[string]interface{}{"tx": tx}, nil)
	case "Disarm":
		k := vhStr(a, "kind")
		if _, ok := n.armed[k]; ok {
			delete(n.armed, k)
			n.emit("Disarm", map[string]interface{}{"kind": k}, nil)
		}
	case "Arm":
		k, text := vhStr(a, "kind"), vhStr(a, "text")
		if _, ok := evErrTexts[text]; !ok {
			text = "generic"
		}
		n.armed[k] = text
		n.emit("Arm", map[string]interface{}{"kind": k, "text": text}, nil)
	}
}

// evRPCErr is a JSON-RPC error with a code and data (what a node answers when its backend lags, rate-limits, ...).
type evRPCErr struct {
	code int
	msg  string
	data interface{}
}

func (e *evRPCErr) Error() string          { return e.msg }
func (e *evRPCErr) ErrorCode() int         { return e.code }
func (e *evRPCErr) ErrorData() interface{} { return e.data }

// The alphabet of TRANSIENT failures of a call.  None of them says that the transaction is unknown: only a null
// result or the exact error "not found" does (that is how a missing receipt is answered, see nfErr).
var evErrTexts = map[string]error{
	"generic":   fmt.Errorf("verif: transient error"),
	"header":    &evRPCErr{-32000, "header not found", nil},
	"block":     &evRPCErr{-32000, "block not found", nil},
	"retry":     fmt.Errorf("not found: try again"),
	"coded":     &evRPCErr{-32005, "limit exceeded", map[string]interface{}{"rate": map[string]interface{}{"allowed_rps": 1, "backoff_seconds": 30}}},
	"timeout":   fmt.Errorf("context deadline exceeded (Client.Timeout exceeded while awaiting headers)"),
	"unknownbk": &evRPCErr{-39001, "Unknown block", "0x"},
}

// fails consumes the armed one-shot failure of this call kind and returns the error to answer with.
func (n *evNode) fails(kind string) error {
	if text, ok := n.armed[kind]; ok {
		delete(n.armed, kind)
		return evErrTexts[text]
	}
	return nil
}

// rAttr notes that a call belongs to request i of the re-observation step in progress; the first call of a
// request is the proof that the handler has taken it (R_Req).  The sentinel must run to its end, so failures
// armed for re-observation calls are set aside (logged as environment steps) while it runs.
func (n *evNode) rAttr(i int) {
	if n.rStarted[i] {
		return
	}
	n.rStarted[i] = true
	if i == 1 {
		for _, k := range []string{"rhead", "rreceipt", "rtime"} {
			if text, ok := n.armed[k]; ok {
				n.rStash[k] = text
				n.applyEnv(evStep{Ev: "Disarm", A: map[string]interface{}{"kind": k}})
			}
		}
	}
	n.emit("R_Req", map[string]interface{}{"tx": n.rTx[i]}, nil)
}

// rGap applies the scripted chain changes between the two requests (head read, receipt read) of the scripted
// re-observation, whichever of the two the handler makes first.
func (n *evNode) rGap() {
	for _, st := range n.rMid {
		n.applyEnv(st)
	}
	n.rMid = nil
}

// alive tells whether the call comes from the connection of the Run that is in progress (under n.mu).
func (n *evNode) alive(ctx context.Context) bool {
	a := ethrpc.PeerInfoFromContext(ctx).RemoteAddr
	if n.deadPeer[a] {
		return false
	}
	n.seenPeer[a] = true
	return true
}

var errEvDead = fmt.Errorf("verif: connection of a Run that has returned")

// ---------------------------------------------------------------- the `eth` JSON-RPC service

type evEth struct{ n *evNode }

func (e *evEth) GetBlockByNumber(ctx context.Context, tag string, full bool) (map[string]interface{}, error) {
	n := e.n
	n.mu.Lock()
	if !n.alive(ctx) {
		n.mu.Unlock()
		return nil, errEvDead
	}
	if n.phase != 2 && n.initDone && n.parkWant {
		// the block poller's request is held back while a re-observation is in flight
		n.parkWant = false
		n.isParked = true
		ch := make(chan struct{})
		n.parkCh = ch
		n.mu.Unlock()
		t0 := time.Now()
		<-ch
		n.mu.Lock()
		n.unpark = false
		if time.Since(t0) > evSlow {
			n.slow = true
		}
		if !n.alive(ctx) {
			n.mu.Unlock()
			return nil, errEvDead
		}
	}
	defer n.mu.Unlock()
	n.drain()
	n.calls++
	num, known := n.headFor(tag)
	if !known {
		n.broken = "unknown block tag " + tag
		return nil, fmt.Errorf("unknown block")
	}
	resp := map[string]interface{}{"number": (*hexutil.Big)(new(big.Int).SetUint64(num)), "hash": n.blkHash(num, n.canon(num))}
	switch {
	case n.phase == 2:
		// the sentinel's head read: the sentinel has started (its receipt was asked for first), or the scripted
		// request already had its head read
		i := 0
		if n.rStarted[1] || n.rHeadOK[0] {
			i = 1
		}
		n.rAttr(i)
		first := !n.rHeadOK[i] && !n.rRcptOK[i]
		n.rHeadOK[i] = true
		if err := n.fails("rhead"); err != nil {
			n.emit("R_Head", map[string]interface{}{"tag": tag, "ok": false, "n": 0, "err": err.Error()}, nil)
			return nil, err
		}
		n.emit("R_Head", map[string]interface{}{"tag": tag, "ok": true, "n": int(num)}, nil)
		if i == 0 && first {
			n.rGap()
		}
		return resp, nil
	case !n.initDone:
		n.initDone, n.initTag, n.initHead, n.pl, n.pollTag = true, tag, num, num, tag
		return resp, nil
	default:
		n.pollTag = tag
		if err := n.fails("poll"); err != nil {
			n.emit("B_Poll", map[string]interface{}{"tag": tag, "ok": false, "n": 0, "err": err.Error()}, nil)
			if n.pollFails > 0 {
				n.pollFails--
				n.applyEnv(evStep{Ev: "Arm", A: map[string]interface{}{"kind": "poll", "text": "timeout"}})
			}
			return nil, err
		}
		n.emit("B_Poll", map[string]interface{}{"tag": tag, "ok": true, "n": int(num)}, nil)
		if num > n.pl {
			n.pl = num
			n.emitted++
		}
		return resp, nil
	}
}

func (e *evEth) GetBlockByHash(ctx context.Context, h ethcommon.Hash, full bool) (*ethtypes.Header, error) {
	n := e.n
	n.mu.Lock()
	if !n.alive(ctx) {
		n.mu.Unlock()
		return nil, errEvDead
	}
	if n.phase != 2 && n.holdWant {
		// the log has been received; its block lookup is answered only when the harness opens the gate
		n.holdWant, n.holdArrived = false, true
		ch := make(chan struct{})
		n.holdCh = ch
		n.mu.Unlock()
		t0 := time.Now()
		<-ch
		n.mu.Lock()
		if time.Since(t0) > evSlow {
			n.slow = true
		}
	}
	defer n.mu.Unlock()
	n.drain()
	n.calls++
	b, ok := n.blkName[h]
	ev, kind := "L_BlockTime", "ltime"
	if n.phase == 2 {
		ev, kind = "R_BlockTime", "rtime"
		if ok && b == [2]int{1, 0} {
			n.rAttr(1)
		} else {
			n.rAttr(0)
		}
	}
	if !ok {
		n.emit(ev, map[string]interface{}{"blk": []int{-1, -1}, "ok": false}, nil)
		return nil, nil
	}
	if kind != "" {
		if err := n.fails(kind); err != nil {
			n.emit(ev, map[string]interface{}{"blk": []int{b[0], b[1]}, "ok": false, "err": err.Error()}, nil)
			return nil, err
		}
	}
	n.emit(ev, map[string]interface{}{"blk": []int{b[0], b[1]}, "ok": true}, nil)
	return &ethtypes.Header{Number: big.NewInt(int64(b[0])), Time: evBlkTime(uint64(b[0]), b[1]), Difficulty: big.NewInt(0)}, nil
}

func (e *evEth) GetTransactionReceipt(ctx context.Context, h ethcommon.Hash) (*ethtypes.Receipt, error) {
	n := e.n
	n.mu.Lock()
	defer n.mu.Unlock()
	if !n.alive(ctx) {
		return nil, errEvDead
	}
	n.drain()
	n.calls++
	tx, ok := n.txName[h]
	if !ok {
		tx = "?" + h.Hex()
	}
	ev, kind := "H_Receipt", "hreceipt"
	gap := false
	if n.phase == 2 {
		ev, kind = "R_Receipt", "rreceipt"
		i := 0
		if tx == "tS" {
			i = 1
		}
		n.rAttr(i)
		gap = i == 0 && !n.rHeadOK[0] && !n.rRcptOK[0]
		n.rRcptOK[i] = true
	}
	after := func() {
		if n.phase == 2 {
			if gap {
				n.rGap()
			}
			return
		}
		n.nRcpt++
		for _, m := range n.mid {
			if m.After == n.nRcpt {
				for _, st := range m.Steps {
					n.applyEnv(st)
				}
			}
		}
	}
	if err := n.fails(kind); err != nil {
		n.emit(ev, map[string]interface{}{"tx": tx, "resp": map[string]interface{}{"kind": "error", "err": err.Error()}}, nil)
		after()
		return nil, err
	}
	r := n.rcpt[tx]
	if r == nil {
		// the two genuine "unknown transaction" answers: a null result, or the error "not found"
		style := "null"
		if n.nfErr {
			style = "error"
		}
		n.emit(ev, map[string]interface{}{"tx": tx, "resp": map[string]interface{}{"kind": "notfound", "style": style}}, nil)
		after()
		if n.nfErr {
			return nil, &evRPCErr{-32000, "not found", nil}
		}
		return nil, nil
	}
	n.emit(ev, map[string]interface{}{"tx": tx, "resp": map[string]interface{}{"kind": "found", "status": int(r.status), "blk": evBlk(r.n, r.g)}}, nil)
	rc := &ethtypes.Receipt{Status: r.status, CumulativeGasUsed: 21000, TxHash: h, GasUsed: 21000,
		BlockHash: n.blkHash(r.n, r.g), BlockNumber: new(big.Int).SetUint64(r.n), TransactionIndex: 0}
	for i, l := range n.txs[tx] {
		if l.Null {
			rc.Logs = append(rc.Logs, nil)
			continue
		}
		rc.Logs = append(rc.Logs, n.concreteLog(tx, i, r))
	}
	after()
	return rc, nil
}

func (e *evEth) Call(ctx context.Context, args map[string]interface{}, blk interface{}) (hexutil.Bytes, error) {
	n := e.n
	var data string
	if s, ok := args["data"].(string); ok {
		data = s
	} else if s, ok := args["input"].(string); ok {
		data = s
	}
	raw, err := hexutil.Decode(data)
	if err != nil || len(raw) < 4 {
		return nil, fmt.Errorf("bad call data")
	}
	m, err := n.abi.MethodById(raw[:4])
	if err != nil {
		return nil, err
	}
	switch m.Name {
	case "getCurrentGuardianSetIndex":
		return m.Outputs.Pack(uint32(3))
	case "getGuardianSet":
		return m.Outputs.Pack(wabi.StructsGuardianSet{Keys: []ethcommon.Address{n.sender("guardian0")}, ExpirationTime: 0})
	}
	return nil, fmt.Errorf("unsupported call %s", m.Name)
}

func evHashes(v interface{}) []ethcommon.Hash {
	switch x := v.(type) {
	case string:
		return []ethcommon.Hash{ethcommon.HexToHash(x)}
	case []interface{}:
		var r []ethcommon.Hash
		for _, y := range x {
			if s, ok := y.(string); ok {
				r = append(r, ethcommon.HexToHash(s))
			}
		}
		return r
	}
	return nil
}

// Logs is eth_subscribe("logs", criteria); the criteria arrive as a plain map.
func (e *evEth) Logs(ctx context.Context, crit map[string]interface{}) (*ethrpc.Subscription, error) {
	n := e.n
	notifier, ok := ethrpc.NotifierFromContext(ctx)
	if !ok {
		return nil, ethrpc.ErrNotificationsUnsupported
	}
	sub := notifier.CreateSubscription()
	n.mu.Lock()
	defer n.mu.Unlock()
	if !n.alive(ctx) {
		return nil, errEvDead
	}
	n.critAddr, n.critTopics = nil, nil
	n.notifier, n.subID = notifier, sub.ID
	switch x := crit["address"].(type) {
	case string:
		n.critAddr = []ethcommon.Address{ethcommon.HexToAddress(x)}
	case []interface{}:
		for _, y := range x {
			if s, ok := y.(string); ok {
				n.critAddr = append(n.critAddr, ethcommon.HexToAddress(s))
			}
		}
	}
	if ts, ok := crit["topics"].([]interface{}); ok {
		for _, t := range ts {
			n.critTopics = append(n.critTopics, evHashes(t))
		}
	}
	n.subscribed = true
	return sub, nil
}

// ---------------------------------------------------------------- observing the watcher's own logger

type evCore struct {
	n *evNode
}

func (c *evCore) Enabled(zapcore.Level) bool        { return true }
func (c *evCore) With([]zapcore.Field) zapcore.Core { return c }
func (c *evCore) Sync() error                       { return nil }
func (c *evCore) Check(e zapcore.Entry, ce *zapcore.CheckedEntry) *zapcore.CheckedEntry {
	if e.Message == "processing new header" || e.Message == "processed new header" {
		return ce.AddCore(e, c)
	}
	return ce
}
func (c *evCore) Write(e zapcore.Entry, fs []zapcore.Field) error {
	num := -1
	for _, f := range fs {
		if f.Key == "current_block" {
			if s, ok := f.Interface.(fmt.Stringer); ok {
				if v, err := strconv.Atoi(s.String()); err == nil {
					num = v
				}
			}
		}
	}
	n := c.n
	if e.Message == "processing new header" {
		n.mu.Lock()
		n.drain()
		n.started++
		n.emit("H_Head", map[string]interface{}{"n": num}, nil)
		n.mu.Unlock()
		return nil
	}
	keys := n.pendingKeys()
	n.mu.Lock()
	n.drain()
	n.done++
	if len(keys) == 0 {
		n.pollDue = false
	}
	n.emit("H_Done", map[string]interface{}{"n": num}, map[string]interface{}{"pending": keys})
	n.mu.Unlock()
	return nil
}

// ---------------------------------------------------------------- running one scenario

type evRun struct {
	n      *evNode
	w      *Watcher
	reqC   chan *gossipv1.ObservationRequest
	fin    bool
	exitMu sync.Mutex
	exited bool   // Watcher.Run is no longer running although the scenario has not ended
	exitEv string // "RunExit" | "Crash"
	exitA  map[string]interface{}
}

func (r *evRun) hasExited() bool {
	r.exitMu.Lock()
	defer r.exitMu.Unlock()
	return r.exited
}

// waitFor polls cond (never holding n.mu across the sleep) until it holds or the deadline passes.
func (r *evRun) waitFor(cond func() bool) bool {
	t0 := time.Now()
	for i := 0; ; i++ {
		if cond() {
			if time.Since(t0) > evSlow {
				r.n.mu.Lock()
				r.n.slow = true
				r.n.mu.Unlock()
			}
			return true
		}
		if time.Since(t0) > evCurDeadline() || r.hasExited() {
			return false
		}
		if i < 50 {
			time.Sleep(50 * time.Microsecond)
		} else {
			time.Sleep(500 * time.Microsecond)
		}
	}
}

// Fail fast.  The first stall of a run is waited for with the full deadline (>= 1000x the nominal latency).  Once
// one is on record the verdict of the run no longer depends on later waits, so they get a short deadline (still
// three orders of magnitude above the nominal latency of ~1 ms), and after evStallCap stalls / harness timeouts no
// further history is started: the check ends quickly with the stalls it has recorded.
const (
	evShortDeadline = 2 * time.Second
	evStallCap      = 3
)

var evStalls int32

// evHolding: a reply of the fake node is being held back (the watcher's own timeout for that call is 15 s), so
// waits made meanwhile give up earlier than that (still 10000x the nominal latency).
var evHolding int32

func evCurDeadline() time.Duration {
	if atomic.LoadInt32(&evStalls) > 0 {
		return evShortDeadline
	}
	if atomic.LoadInt32(&evHolding) > 0 {
		return evDeadline / 2
	}
	return evDeadline
}

func (r *evRun) line(ev string, a map[string]interface{}, s map[string]interface{}) {
	if (ev == "Stall" || ev == "Timeout") && r.hasExited() {
		r.exitMu.Lock()
		ev, a = r.exitEv, r.exitA
		r.exitMu.Unlock()
	}
	if ev == "Stall" || ev == "Timeout" || ev == "RunExit" || ev == "Crash" {
		atomic.AddInt32(&evStalls, 1)
	}
	r.n.mu.Lock()
	r.n.drain()
	if ev == "Stall" || ev == "RunExit" || ev == "Crash" {
		r.n.stalled = true
	}
	r.n.emit(ev, a, s)
	r.n.mu.Unlock()
}

func (r *evRun) tag() string {
	if r.fin {
		return "finalized"
	}
	return "latest"
}

// settle waits until the watcher is quiet: the poller has seen the current head if it is (or has to be)
// polling, and every head it emitted has been scanned completely.
func (r *evRun) settle() bool {
	n := r.n
	stalled := false
	ok := r.waitFor(func() bool {
		keys := n.pendingKeys()
		en := r.w.ethConn.enabled.Load()
		n.mu.Lock()
		defer n.mu.Unlock()
		cur, _ := n.headFor(n.pollTag)
		if n.unpark {
			return false
		}
		if n.isParked {
			return n.started >= n.emitted && n.done == n.started
		}
		_ = keys
		if (n.pollDue || en) && n.pl < cur {
			// a head read is owed (EvmWatcher!PollDue) when a log has been stored and pending has not been empty since
			stalled = n.pollDue
			return false
		}
		stalled = false
		return n.started >= n.emitted && n.done == n.started
	})
	if !ok {
		if stalled {
			r.line("Stall", map[string]interface{}{"what": "poller"}, nil)
		} else {
			r.line("Timeout", map[string]interface{}{"what": "settle"}, nil)
		}
	}
	return ok
}

// park holds back the block poller's next head read (so that no new head can be emitted and every
// served call belongs to the process the harness is exercising), then waits for the watcher to be quiet.
func (r *evRun) park() bool {
	n := r.n
	n.mu.Lock()
	n.parkWant = true
	n.mu.Unlock()
	forced := false
	if !r.w.ethConn.enabled.Load() {
		r.w.ethConn.EnablePoller()
		forced = true
	}
	ok := r.waitFor(func() bool { n.mu.Lock(); defer n.mu.Unlock(); return n.isParked })
	if forced {
		r.w.ethConn.DisablePoller()
	}
	if !ok {
		r.line("Timeout", map[string]interface{}{"what": "park"}, nil)
		return false
	}
	return r.settle()
}

func (r *evRun) unpark() {
	n := r.n
	n.mu.Lock()
	n.drain()
	if n.isParked {
		n.isParked = false
		n.unpark = true
		close(n.parkCh)
	}
	n.mu.Unlock()
	// the released head read is answered before anything else happens
	r.waitFor(func() bool { n.mu.Lock(); defer n.mu.Unlock(); return !n.unpark })
}

func (r *evRun) pushLog(st evStep) bool {
	n := r.n
	tx, idx := vhStr(st.A, "tx"), vhInt(st.A, "i", 1)-1
	n.mu.Lock()
	rc := n.rcpt[tx]
	if rc == nil || idx < 0 || idx >= len(n.txs[tx]) {
		n.mu.Unlock()
		return true
	}
	lg := n.concreteLog(tx, idx, rc)
	l := n.txs[tx][idx]
	delivered := n.matches(lg) && !l.Null
	key := evPendingEntry{TxHash: lg.TxHash, BlockHash: lg.BlockHash, EmitterAddress: PadAddress(n.sender(l.Sender)), Sequence: uint64(l.Seq)}
	lookup := func() (uintptr, uint64, bool) {
		for _, e := range evPending(r.w) {
			if e.TxHash == key.TxHash && e.BlockHash == key.BlockHash && e.EmitterAddress == key.EmitterAddress && e.Sequence == key.Sequence {
				return e.ptr, e.height, true
			}
		}
		return 0, 0, false
	}
	n.mu.Unlock()
	hold := delivered && (vhBool(st.A, "hold") || len(st.Mid) > 0)
	if delivered && !hold {
		// no head may be emitted while the log is handed over: "log before head" must be a fact
		if !r.park() {
			return false
		}
	}
	before, _, _ := lookup()
	n.mu.Lock()
	n.drain()
	n.emit("PushLog", map[string]interface{}{"tx": tx, "i": idx + 1, "delivered": delivered, "hold": hold}, nil)
	notifier, id := n.notifier, n.subID
	n.holdWant, n.holdArrived, n.holdCh = hold, false, nil
	n.mu.Unlock()
	if !delivered {
		return true
	}
	release := func() {
		n.mu.Lock()
		n.holdWant = false
		if n.holdCh != nil {
			close(n.holdCh)
			n.holdCh = nil
		}
		n.mu.Unlock()
	}
	if err := notifier.Notify(id, lg); err != nil {
		r.line("Timeout", map[string]interface{}{"what": "notify: " + err.Error()}, nil)
		return false
	}
	if hold {
		atomic.StoreInt32(&evHolding, 1)
		defer atomic.StoreInt32(&evHolding, 0)
		// LogReceived .. PendingStored with the chain moving in between: the reply to the block lookup is held
		// while the scripted heads are polled and scanned (if the poller runs) - a gate, not a sleep
		if !r.waitFor(func() bool { n.mu.Lock(); defer n.mu.Unlock(); return n.holdArrived }) {
			r.line("Stall", map[string]interface{}{"what": "log-intake"}, nil)
			release()
			return false
		}
		ok := r.settle()
		for _, m := range st.Mid {
			for _, x := range m.Steps {
				if !ok {
					break
				}
				n.mu.Lock()
				n.drain()
				n.applyEnv(x)
				n.mid, n.nRcpt = nil, 0
				n.mu.Unlock()
				ok = r.settle()
			}
		}
		// from here on no head is emitted until the entry is seen in pending (as in the plain hand-over)
		ok = ok && r.park()
		release()
		if !ok {
			r.unpark()
			return false
		}
	}
	ok := r.waitFor(func() bool {
		now, _, in := lookup()
		return in && now != before
	})
	if !ok {
		r.line("Stall", map[string]interface{}{"what": "log-intake"}, nil)
		r.unpark()
		return false
	}
	keys := n.pendingKeys()
	n.mu.Lock()
	n.pollDue = true
	n.mu.Unlock()
	r.line("L_Insert", nil, map[string]interface{}{"pending": keys})
	r.unpark()
	return true
}

func (r *evRun) ready() bool {
	r.n.mu.Lock()
	comp := r.n.comp
	r.n.mu.Unlock()
	rr := httptest.NewRecorder()
	readiness.Handler(rr, httptest.NewRequest("GET", "/readyz", nil))
	return strings.Contains(rr.Body.String(), comp+"\ttrue")
}

// restart makes Run return through a fatal RPC error while the watcher is quiet (three failed polls in a row when
// the poller is running, else the failing block lookup of a throw-away log), lets the REAL supervisor run it again
// on the same Watcher, and records what the Watcher still holds (RunRestart).
func (r *evRun) restart(st evStep, k int) bool {
	n := r.n
	if !r.settle() {
		return false
	}
	via := vhStr(st.A, "via")
	n.mu.Lock()
	n.drain()
	if via != "poll" && via != "ltime" {
		via = []string{"poll", "ltime"}[k%2]
	}
	if via == "poll" && !(n.pollDue && r.w.ethConn.enabled.Load()) {
		via = "ltime"
	}
	before := n.restarted
	n.restartWant = true
	var notifier *ethrpc.Notifier
	var id ethrpc.ID
	var lg *ethtypes.Log
	if via == "poll" {
		n.pollFails = 2
		n.applyEnv(evStep{Ev: "Arm", A: map[string]interface{}{"kind": "poll", "text": "timeout"}})
	} else {
		tx := fmt.Sprintf("tR%d", k)
		n.applyEnv(evStep{Ev: "Mine", A: map[string]interface{}{"tx": tx, "n": int(n.latest), "status": 1,
			"logs": []interface{}{map[string]interface{}{"core": true, "topic": true, "sender": "sR", "seq": 1000 + k, "cl": 0}}}})
		n.applyEnv(evStep{Ev: "Arm", A: map[string]interface{}{"kind": "ltime", "text": st.A["text"]}})
		lg = n.concreteLog(tx, 0, n.rcpt[tx])
		n.emit("PushLog", map[string]interface{}{"tx": tx, "i": 1, "delivered": n.matches(lg), "hold": false}, nil)
		notifier, id = n.notifier, n.subID
	}
	n.mu.Unlock()
	if lg != nil {
		if err := notifier.Notify(id, lg); err != nil {
			r.line("Timeout", map[string]interface{}{"what": "notify: " + err.Error()}, nil)
			return false
		}
	}
	// Run returns, the supervisor backs off (250..750 ms the first time) and runs it again
	t0 := time.Now()
	for {
		n.mu.Lock()
		done := n.restarted > before && n.initDone && n.subscribed
		n.mu.Unlock()
		if done && r.ready() {
			break
		}
		if r.hasExited() || time.Since(t0) > evDeadline {
			r.line("Timeout", map[string]interface{}{"what": "restart"}, nil)
			return false
		}
		time.Sleep(500 * time.Microsecond)
	}
	keys := n.pendingKeys()
	n.mu.Lock()
	n.drain()
	n.pollDue, n.pollFails = false, 0
	n.pl, n.pollTag = n.initHead, n.initTag
	n.emitted, n.started, n.done = 0, 0, 0
	n.emit("RunRestart", map[string]interface{}{"tag": n.initTag, "pl": int(n.initHead), "via": via}, map[string]interface{}{"pending": keys})
	n.mu.Unlock()
	return true
}

func (r *evRun) reobserve(st evStep) bool {
	n := r.n
	if !r.settle() {
		return false
	}
	if !r.park() {
		return false
	}
	tx := vhStr(st.A, "tx")
	if tx == "tS" {
		tx = "tS?" // the sentinel's name is reserved
	}
	n.mu.Lock()
	n.drain()
	n.phase = 2
	n.txHash(tx)
	n.rTx = [2]string{tx, "tS"}
	n.rStarted, n.rHeadOK, n.rRcptOK = [2]bool{}, [2]bool{}, [2]bool{}
	n.rStash = map[string]string{}
	n.rMid = nil
	for _, m := range st.Mid {
		n.rMid = append(n.rMid, m.Steps...)
	}
	before := n.sFwd
	n.mu.Unlock()
	res := true
	for _, name := range []string{tx, "tS"} {
		h := evHash("tx|", n.sc, "|", name)
		select {
		case r.reqC <- &gossipv1.ObservationRequest{ChainId: uint32(n.chainID), TxHash: h[:]}:
		case <-time.After(evCurDeadline()):
			r.line("Stall", map[string]interface{}{"what": "reobservation-not-taken"}, nil)
			res = false
		}
		if !res {
			break
		}
	}
	// bounded liveness: the sentinel names a deep message of the core contract in a successful transaction and no
	// call fails, so it has to come out (the deadline is >= 1000x the nominal latency)
	if res && !r.waitFor(func() bool { n.mu.Lock(); defer n.mu.Unlock(); n.drain(); return n.sFwd > before }) {
		r.line("Stall", map[string]interface{}{"what": "reobservation-no-output"}, nil)
		res = false
	}
	n.mu.Lock()
	n.drain()
	n.phase = 0
	for _, k := range []string{"rhead", "rreceipt", "rtime"} {
		if text, ok := n.rStash[k]; ok {
			n.applyEnv(evStep{Ev: "Arm", A: map[string]interface{}{"kind": k, "text": text}})
		}
	}
	n.rStash = nil
	n.mu.Unlock()
	r.unpark()
	return res && r.settle()
}

func evRunScenario(t *testing.T, tr *vhTrace, sc evScenario) {
	parsed, err := ethabi.JSON(strings.NewReader(wabi.AbiABI))
	if err != nil {
		t.Fatal(err)
	}
	n := &evNode{tr: tr, sc: sc.ID, latest: uint64(sc.Init.Latest), final: uint64(sc.Init.Final),
		variant: map[uint64]int{}, txs: map[string][]evLogSpec{}, rcpt: map[string]*evRcpt{}, armed: map[string]string{},
		txName: map[ethcommon.Hash]string{}, blkName: map[ethcommon.Hash][2]int{}, sndName: map[ethcommon.Address]string{},
		abi: parsed, msgC: make(chan *common.MessagePublication, 4096)}
	n.contract = ethcommon.BytesToAddress(evHash("core").Bytes()[:20])
	n.other = ethcommon.BytesToAddress(evHash("other").Bytes()[:20])
	n.chainID = vaa.ChainIDBSC
	if sc.Cfg.Fin {
		n.chainID = vaa.ChainIDEthereum
	}
	n.nfErr = sc.Cfg.NF == "error"
	n.pollTag = "latest"
	if sc.Cfg.Fin {
		n.pollTag = "finalized"
	}

	srv := ethrpc.NewServer()
	if err := srv.RegisterName("eth", &evEth{n}); err != nil {
		t.Fatal(err)
	}
	hs := httptest.NewServer(srv.WebsocketHandler([]string{"*"}))
	defer hs.Close()
	defer srv.Stop()
	url := "ws://" + strings.TrimPrefix(hs.URL, "http://")

	poll := uint(1)
	reqC := make(chan *gossipv1.ObservationRequest)
	setC := make(chan *common.GuardianSet, 8)
	comp := readiness.Component(fmt.Sprintf("verifEvm%d", sc.ID))
	// finalized mode: mainnet Ethereum (read at "finalized", consistency level ignored);
	// latest mode: a chain read at "latest" that honours the consistency level (as BSC is configured).
	w := NewEthWatcher(url, n.contract, "verif-evm", comp, n.chainID, n.msgC, setC, reqC, false, &poll, !sc.Cfg.Fin)
	if sc.Cfg.W > 0 {
		w.maxWaitConfirmations = uint64(sc.Cfg.W)
	}
	n.w = w
	n.comp = string(comp)
	n.seenPeer, n.deadPeer = map[string]bool{}, map[string]bool{}
	r := &evRun{n: n, w: w, reqC: reqC, fin: sc.Cfg.Fin}

	logger := zap.New(&evCore{n})
	ctx, cancel := context.WithCancel(context.Background())
	defer cancel()
	// The watcher runs as a supervised runnable, as in guardiand: when Run returns an error the REAL supervisor
	// cancels its context, backs off and runs it again on the same Watcher value.
	runs := 0
	watch := func(ctx context.Context) (err error) {
		defer func() {
			if p := recover(); p != nil {
				r.exitMu.Lock()
				r.exited, r.exitEv = true, "Crash"
				r.exitA = map[string]interface{}{"panic": fmt.Sprint(p), "stack": string(debug.Stack())}
				r.exitMu.Unlock()
				<-ctx.Done()
				err = ctx.Err()
			}
		}()
		err = w.Run(ctx)
		if ctx.Err() != nil {
			return err
		}
		n.mu.Lock()
		if n.restartWant {
			// the scripted fatal error: everything that still arrives on this Run's connections is dead
			n.restartWant = false
			n.restarted++
			for a := range n.seenPeer {
				n.deadPeer[a] = true
			}
			n.initDone, n.subscribed = false, false
			n.parkWant = false
			if n.isParked {
				n.isParked = false
				close(n.parkCh)
			}
			runs++
			n.comp = fmt.Sprintf("verifEvm%dr%d", sc.ID, runs)
			w.readiness = readiness.Component(n.comp)
			n.mu.Unlock()
			return err
		}
		n.mu.Unlock()
		// the scripted node is healthy (no failure was injected into a call whose failure ends Run)
		r.exitMu.Lock()
		r.exited, r.exitEv = true, "RunExit"
		r.exitA = map[string]interface{}{"err": fmt.Sprint(err)}
		r.exitMu.Unlock()
		<-ctx.Done()
		return ctx.Err()
	}
	supervisor.New(ctx, logger, func(ctx context.Context) error {
		if err := supervisor.Run(ctx, "evmwatch", watch); err != nil {
			return err
		}
		supervisor.Signal(ctx, supervisor.SignalHealthy)
		<-ctx.Done()
		return ctx.Err()
	})

	// wait for the end of Run's initialisation: subscriptions in place, poller's first head read served
	okInit := r.waitFor(func() bool {
		n.mu.Lock()
		ini, sub := n.initDone, n.subscribed
		n.mu.Unlock()
		return ini && sub && r.ready() && w.ethConn != nil
	})
	n.mu.Lock()
	if !n.initDone {
		// Run ended before the poller's first head read: the history starts (and ends) with what it did instead
		n.initTag = r.tag()
		n.initHead, _ = n.headFor(n.initTag)
	}
	n.emit("Start", map[string]interface{}{"fin": sc.Cfg.Fin, "W": int(w.maxWaitConfirmations), "latest": int(n.latest), "final": int(n.final),
		"tag": n.initTag, "pl": int(n.initHead)}, nil)
	n.mu.Unlock()
	if !okInit {
		r.line("Timeout", map[string]interface{}{"what": "init"}, nil)
		return
	}
	n.mu.Lock()
	n.applyEnv(evStep{Ev: "Mine", A: map[string]interface{}{"tx": "tS", "n": 1, "status": 1,
		"logs": []interface{}{map[string]interface{}{"core": true, "topic": true, "sender": "sS", "seq": 1, "cl": 0}}}})
	n.mu.Unlock()

	alive := true
	nRestart := 0
	for _, st := range sc.Steps {
		if r.hasExited() {
			r.line("Timeout", map[string]interface{}{"what": "run"}, nil) // recorded as RunExit / Crash
			alive = false
		}
		if !alive {
			break
		}
		switch st.Ev {
		case "PushLog":
			alive = r.settle() && r.pushLog(st)
		case "Reobserve":
			alive = r.reobserve(st)
		case "Restart":
			nRestart++
			alive = r.restart(st, nRestart)
		case "NewHead":
			n.mu.Lock()
			n.drain()
			n.applyEnv(st)
			n.mid, n.nRcpt = st.Mid, 0
			for _, m := range st.Mid {
				if m.After == 0 {
					for _, x := range m.Steps {
						n.applyEnv(x)
					}
				}
			}
			n.mu.Unlock()
			alive = r.settle()
		default:
			n.mu.Lock()
			n.drain()
			n.applyEnv(st)
			n.mu.Unlock()
		}
	}
	if alive && r.settle() {
		keys := n.pendingKeys()
		r.line("End", nil, map[string]interface{}{"pending": keys})
	}
	n.mu.Lock()
	n.drain()
	if n.slow && !n.stalled {
		// completed, but some wait was long enough to come near the code's own timeouts: not judged.
		// (A history in which the watcher stalled is judged: the long wait IS the observation.)
		n.emit("Slow", nil, nil)
	}
	if n.broken != "" {
		n.emit("Timeout", map[string]interface{}{"what": n.broken}, nil)
	}
	if n.isParked {
		n.isParked = false
		close(n.parkCh)
	}
	n.ended = true
	if n.holdCh != nil {
		close(n.holdCh)
		n.holdCh = nil
	}
	n.mu.Unlock()
	cancel()
}

func TestVerifEvmReplay(t *testing.T) {
	scPath, trPath := os.Getenv("VERIF_SCENARIOS"), os.Getenv("VERIF_TRACE")
	if scPath == "" || trPath == "" {
		t.Skip("VERIF_SCENARIOS / VERIF_TRACE not set")
	}
	scs, err := evLoad(scPath)
	if err != nil {
		t.Fatal(err)
	}
	tr, err := vhOpenTrace(trPath)
	if err != nil {
		t.Fatal(err)
	}
	defer tr.Close()
	_ = hex.EncodeToString
	ran := 0
	for _, sc := range scs {
		// every stall costs the full deadline: after a few of them the verdict is clear, do not wait for hours
		if atomic.LoadInt32(&evStalls) >= evStallCap {
			break
		}
		evRunScenario(t, tr, sc)
		ran++
	}
	fmt.Printf("VERIF-REPLAYED scenarios=%d of %d lines=%d\n", ran, len(scs), tr.n)
}
