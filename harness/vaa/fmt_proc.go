package processor

// node/pkg/processor part of the format harness (C04: the processor builds the VAA purely from the message
// fields; C07: CalculateQuorum).  Injected together with harness/common/vh.go and harness/vaa/fmt_core.go.

import (
	"bytes"
	"context"
	"encoding/hex"
	"testing"
	"time"

	"github.com/alephium/wormhole-fork/node/pkg/common"
	"github.com/alephium/wormhole-fork/node/pkg/db"
	"github.com/alephium/wormhole-fork/node/pkg/ecdsasigner"
	gossipv1 "github.com/alephium/wormhole-fork/node/pkg/proto/gossip/v1"
	"github.com/alephium/wormhole-fork/node/pkg/reporter"
	"github.com/alephium/wormhole-fork/node/pkg/supervisor"
	"github.com/alephium/wormhole-fork/node/pkg/vaa"
	ethcommon "github.com/ethereum/go-ethereum/common"
	"go.uber.org/zap"
	"google.golang.org/protobuf/proto"
)

func init() {
	vfQuorumFn = CalculateQuorum
	vfProcBodyFn = vfProcBodies
}

type vfGuardian struct {
	p     *Processor
	sendC chan []byte
	obsvC chan *gossipv1.SignedObservation
}

// vfObserve feeds one MessagePublication to the real handleMessage of guardian g and reports what the node signed:
// the signing body of the VAA it built (ourVAA), whether the aggregation key and the hash in the signed observation on
// sendC are the double Keccak of that body, or signed = false when the node did not sign at all.
func vfObserve(ctx context.Context, g *vfGuardian, k *common.MessagePublication) (signed bool, body []byte, hash string, keyH2 bool, panicked string) {
	g.p.state.vaaSignatures = vaaMap{}
	if p := vfCatch(func() { g.p.handleMessage(ctx, k) }); p != "" {
		return false, nil, "", false, p
	}
	var sh []byte
	select {
	case b := <-g.sendC:
		var gm gossipv1.GossipMessage
		if err := proto.Unmarshal(b, &gm); err == nil {
			if o := gm.GetSignedObservation(); o != nil {
				sh = o.Hash
			}
		}
	default:
	}
	for len(g.sendC) > 0 {
		<-g.sendC
	}
	for len(g.obsvC) > 1000 {
		<-g.obsvC
	}
	if len(g.p.state.vaaSignatures) == 0 && sh == nil {
		return false, nil, "", true, "" // nothing signed
	}
	if len(g.p.state.vaaSignatures) != 1 || sh == nil {
		return true, nil, hex.EncodeToString(sh), false, "" // signed something, but not one entry + one observation
	}
	keyH2 = true
	for key, st := range g.p.state.vaaSignatures {
		if st.ourVAA == nil {
			return true, nil, hex.EncodeToString(sh), false, ""
		}
		body = st.ourVAA.SerializeBody()
		want := vfKeccak2(body)
		if key != hex.EncodeToString(want) || !bytes.Equal(sh, want) || st.ourVAA.GuardianSetIndex != g.p.gs.Index {
			keyH2 = false
		}
	}
	return true, body, hex.EncodeToString(sh), keyH2, ""
}

// variants of the VAA that the store of ONE guardian already holds for the message id of the observed message
var vfStoredVariants = []string{"same-body", "other-payload", "other-nonce", "ts-1s+other-payload", "ts-29s+other-consistency", "ts-31s+other-payload"}

func vfStoredVAA(m *vaa.VAA, variant string, key *vhKeys) *vaa.VAA {
	st := &vaa.VAA{Version: 1, GuardianSetIndex: 5, Timestamp: time.Unix(m.Timestamp.Unix(), 0), Nonce: m.Nonce, Sequence: m.Sequence,
		ConsistencyLevel: m.ConsistencyLevel, EmitterChain: m.EmitterChain, TargetChain: m.TargetChain, EmitterAddress: m.EmitterAddress,
		Payload: append([]byte{}, m.Payload...)}
	back := func(d int64) {
		if u := m.Timestamp.Unix(); u >= d {
			st.Timestamp = time.Unix(u-d, 0)
		}
	}
	otherPayload := func() { st.Payload = append(append([]byte{}, m.Payload...), 0x5a) }
	switch variant {
	case "same-body":
		if len(st.Payload) == 0 {
			otherPayload() // an empty payload cannot be stored decodably
		}
	case "other-payload":
		otherPayload()
	case "other-nonce":
		st.Nonce ^= 0x00010000
		if len(st.Payload) == 0 {
			otherPayload()
		}
	case "ts-1s+other-payload":
		back(1)
		otherPayload()
	case "ts-29s+other-consistency":
		back(29)
		st.ConsistencyLevel ^= 0x01
		if len(st.Payload) == 0 {
			otherPayload()
		}
	case "ts-31s+other-payload":
		back(31)
		otherPayload()
	}
	st.AddSignature(key.Key("g3"), 0)
	return st
}

// vfProcBodies feeds every C04 body value, as a MessagePublication with a sub-second time part, to the real
// handleMessage of different guardians (different key, different guardian set and set index) and records the signing
// body of the VAA each of them built and the 32 bytes each of them signed.  Every value is observed
//
//	(1) by two guardians with empty stores, and
//	(2) by a guardian whose store ALREADY HOLDS a signed VAA for the same message id (same body / other payload /
//	    other nonce / 1, 29, 31 s older) next to a guardian with an empty store: whenever a node signs at all
//	    (it may ignore a late observation) it must sign the digest of the OBSERVED message.
func vfProcBodies(t *testing.T, vecs []vfVector, tr *vhTrace) {
	database, err := db.Open(t.TempDir())
	if err != nil {
		t.Fatal(err)
	}
	defer database.Close()
	storeDB, err := db.Open(t.TempDir())
	if err != nil {
		t.Fatal(err)
	}
	defer storeDB.Close()
	keys := vhNewKeys("vf-proc")
	done := make(chan struct{})
	ctx, cancel := context.WithCancel(context.Background())
	defer cancel()
	supervisor.New(ctx, zap.NewNop(), func(ctx context.Context) error {
		defer close(done)
		mk := func(self string, d *db.Database, gs *common.GuardianSet) *vfGuardian {
			g := &vfGuardian{sendC: make(chan []byte, 64), obsvC: make(chan *gossipv1.SignedObservation, 1<<16)}
			gst := common.NewGuardianSetState(nil)
			g.p = NewProcessor(ctx, d, nil, nil, g.sendC, g.obsvC, make(chan *gossipv1.ObservationRequest, 16), nil, nil,
				&ecdsasigner.ECDSAPrivateKey{Value: keys.Key(self)}, gst, reporter.EventListener(zap.NewNop()), nil,
				vaa.ChainID(60000), vaa.Address{0: 0xee, 31: 4})
			g.p.gs = gs
			gst.Set(gs)
			return g
		}
		g1 := mk("g1", database, &common.GuardianSet{Index: 0, Keys: []ethcommon.Address{keys.Addr("g1")}})
		g2 := mk("g2", database, &common.GuardianSet{Index: 0xfffffff7, Keys: []ethcommon.Address{keys.Addr("g3"), keys.Addr("g2"), keys.Addr("g1")}})
		g3 := mk("g3", storeDB, &common.GuardianSet{Index: 5, Keys: []ethcommon.Address{keys.Addr("g3"), keys.Addr("g4")}})
		subsecs := []int64{0, 1, 999999999, 500000000}
		for i := range vecs {
			vc := &vecs[i]
			m := vfToGo(vc.V)
			for pass := 0; pass < 2; pass++ {
				gs := []*vfGuardian{g1, g2}
				variant := ""
				if pass == 1 {
					// the store of g3 holds a signed VAA for this message id (overwriting what an earlier case left there)
					variant = vfStoredVariants[vc.ID%len(vfStoredVariants)]
					if err := storeDB.StoreSignedVAA(vfStoredVAA(m, variant, keys)); err != nil {
						t.Fatal(err)
					}
					gs = []*vfGuardian{g3, g2}
				}
				bodies, hashes := map[string]bool{}, map[string]bool{}
				present, keyH2, storeSigned := true, true, false
				var firstBody []byte
				panicked := ""
				for gi, g := range gs {
					k := &common.MessagePublication{TxHash: ethcommon.Hash{1, byte(i), byte(gi)},
						Timestamp: time.Unix(m.Timestamp.Unix(), subsecs[(i+gi+pass)%len(subsecs)]), Nonce: m.Nonce, Sequence: m.Sequence,
						ConsistencyLevel: m.ConsistencyLevel, EmitterChain: m.EmitterChain, TargetChain: m.TargetChain,
						EmitterAddress: m.EmitterAddress, Payload: m.Payload}
					signed, body, hash, kh, p := vfObserve(ctx, g, k)
					if p != "" {
						panicked = p
						continue
					}
					mayIgnore := pass == 1 && g == g3
					if !signed {
						if !mayIgnore {
							present = false
						}
						continue
					}
					if mayIgnore {
						storeSigned = true
					}
					if body == nil {
						present = false
						continue
					}
					if firstBody == nil {
						firstBody = body
					}
					bodies[string(body)] = true
					hashes[hash] = true
					keyH2 = keyH2 && kh
				}
				a := vfTag(map[string]interface{}{"v": vfValToMap(vc.V)}, vc)
				s := map[string]interface{}{"present": present, "keyH2": keyH2, "body": vfInts(firstBody),
					"distinctBodies": len(bodies), "distinctKeys": len(hashes), "guardians": len(gs)}
				if pass == 1 {
					a["stored"] = variant
					s["storeGuardianSigned"] = storeSigned
				}
				if panicked != "" {
					s["panic"] = panicked
				}
				tr.Emit(1, "ProcBody", a, s)
			}
		}
		supervisor.Signal(ctx, supervisor.SignalDone)
		return nil
	})
	<-done
}
