package processor

// node/pkg/processor part of the format harness (C04: the processor builds the VAA purely from the message
// fields; C07: CalculateQuorum).  Injected together with harness/common/vh.go and harness/vaa/fmt_core.go.

import (
	"bytes"
	"context"
	"encoding/hex"
	"testing"
	"time"

	"github.com/alephium/wormhole-fork/node/pkg/common"
	"github.com/alephium/wormhole-fork/node/pkg/db"
	"github.com/alephium/wormhole-fork/node/pkg/ecdsasigner"
	gossipv1 "github.com/alephium/wormhole-fork/node/pkg/proto/gossip/v1"
	"github.com/alephium/wormhole-fork/node/pkg/reporter"
	"github.com/alephium/wormhole-fork/node/pkg/supervisor"
	"github.com/alephium/wormhole-fork/node/pkg/vaa"
	ethcommon "github.com/ethereum/go-ethereum/common"
	"go.uber.org/zap"
	"google.golang.org/protobuf/proto"
)

func init() {
	vfQuorumFn = CalculateQuorum
	vfProcBodyFn = vfProcBodies
}

type vfGuardian struct {
	p     *Processor
	sendC chan []byte
	obsvC chan *gossipv1.SignedObservation
}

// vfProcBodies feeds every C04 body value, as a MessagePublication with a sub-second time part, to the real
// handleMessage of two different guardians (different key, different guardian set and set index) and records
// the signing body of the VAA each of them built and the 32 bytes each of them signed.
func vfProcBodies(t *testing.T, vecs []vfVector, tr *vhTrace) {
	database, err := db.Open(t.TempDir())
	if err != nil {
		t.Fatal(err)
	}
	defer database.Close()
	keys := vhNewKeys("vf-proc")
	done := make(chan struct{})
	ctx, cancel := context.WithCancel(context.Background())
	defer cancel()
	supervisor.New(ctx, zap.NewNop(), func(ctx context.Context) error {
		defer close(done)
		mk := func(self string, gs *common.GuardianSet) *vfGuardian {
			g := &vfGuardian{sendC: make(chan []byte, 64), obsvC: make(chan *gossipv1.SignedObservation, 1<<16)}
			gst := common.NewGuardianSetState(nil)
			g.p = NewProcessor(ctx, database, nil, nil, g.sendC, g.obsvC, make(chan *gossipv1.ObservationRequest, 16), nil, nil,
				&ecdsasigner.ECDSAPrivateKey{Value: keys.Key(self)}, gst, reporter.EventListener(zap.NewNop()), nil,
				vaa.ChainID(60000), vaa.Address{0: 0xee, 31: 4})
			g.p.gs = gs
			gst.Set(gs)
			return g
		}
		gs := []*vfGuardian{
			mk("g1", &common.GuardianSet{Index: 0, Keys: []ethcommon.Address{keys.Addr("g1")}}),
			mk("g2", &common.GuardianSet{Index: 0xfffffff7, Keys: []ethcommon.Address{keys.Addr("g3"), keys.Addr("g2"), keys.Addr("g1")}}),
		}
		subsecs := []int64{0, 1, 999999999, 500000000}
		for i := range vecs {
			vc := &vecs[i]
			bodies, signedHashes := map[string]bool{}, map[string]bool{}
			present, keyH2 := true, true
			var firstBody []byte
			panicked := ""
			for gi, g := range gs {
				g.p.state.vaaSignatures = vaaMap{}
				m := vfToGo(vc.V)
				k := &common.MessagePublication{TxHash: ethcommon.Hash{1, byte(i), byte(gi)},
					Timestamp: time.Unix(m.Timestamp.Unix(), subsecs[(i+gi)%len(subsecs)]), Nonce: m.Nonce, Sequence: m.Sequence,
					ConsistencyLevel: m.ConsistencyLevel, EmitterChain: m.EmitterChain, TargetChain: m.TargetChain,
					EmitterAddress: m.EmitterAddress, Payload: m.Payload}
				if p := vfCatch(func() { g.p.handleMessage(ctx, k) }); p != "" {
					panicked = p
					continue
				}
				var signed []byte
				select {
				case b := <-g.sendC:
					var gm gossipv1.GossipMessage
					if err := proto.Unmarshal(b, &gm); err == nil {
						if o := gm.GetSignedObservation(); o != nil {
							signed = o.Hash
						}
					}
				default:
				}
				for len(g.sendC) > 0 {
					<-g.sendC
				}
				for len(g.obsvC) > 1000 {
					<-g.obsvC
				}
				if len(g.p.state.vaaSignatures) != 1 || signed == nil {
					present = false
					continue
				}
				for key, st := range g.p.state.vaaSignatures {
					if st.ourVAA == nil {
						present = false
						continue
					}
					body := st.ourVAA.SerializeBody()
					if firstBody == nil {
						firstBody = body
					}
					bodies[string(body)] = true
					signedHashes[hex.EncodeToString(signed)] = true
					want := vfKeccak2(body)
					if key != hex.EncodeToString(want) || !bytes.Equal(signed, want) {
						keyH2 = false
					}
					if st.ourVAA.GuardianSetIndex != g.p.gs.Index {
						keyH2 = false
					}
				}
			}
			a := vfTag(map[string]interface{}{"v": vfValToMap(vc.V)}, vc)
			s := map[string]interface{}{"present": present, "keyH2": keyH2, "body": vfInts(firstBody),
				"distinctBodies": len(bodies), "distinctKeys": len(signedHashes), "guardians": len(gs)}
			if panicked != "" {
				s["panic"] = panicked
			}
			tr.Emit(1, "ProcBody", a, s)
		}
		supervisor.Signal(ctx, supervisor.SignalDone)
		return nil
	})
	<-done
}
