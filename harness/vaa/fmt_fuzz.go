package vaa_test

// Coverage-guided fuzzing of vaa.Unmarshal (C05, thorough tier).  The online oracle is a transcription of
// VAAWire!Accept / PayloadLen whose constants are the ones TLC exported; it only FLAGS inputs.  Flagged
// inputs and the whole corpus are afterwards replayed as a trace that TLC validates (generator "corpus"),
// and only that produces verdicts.  The fuzz function never fails: a failing target would write
// testdata/fuzz into the package directory.

import (
	"bufio"
	"encoding/hex"
	"fmt"
	"os"
	"strings"
	"sync"
	"testing"
)

var vfFuzzMu sync.Mutex
var vfFuzzSeen = map[string]int{}

func vfFuzzFlag(b []byte, class string) {
	vfFuzzMu.Lock()
	defer vfFuzzMu.Unlock()
	if vfFuzzSeen[class] >= 5 {
		return
	}
	vfFuzzSeen[class]++
	out := os.Getenv("VERIF_FUZZ_OUT")
	if out == "" {
		return
	}
	f, err := os.OpenFile(fmt.Sprintf("%s/flagged-%d.hex", out, os.Getpid()), os.O_APPEND|os.O_CREATE|os.O_WRONLY, 0o644)
	if err != nil {
		return
	}
	defer f.Close()
	fmt.Fprintln(f, hex.EncodeToString(b))
}

func FuzzVerifUnmarshal(f *testing.F) {
	if _, err := vfLoadTables(); err != nil {
		f.Skip(err.Error())
	}
	if p := os.Getenv("VERIF_FUZZ_SEEDS"); p != "" {
		if fh, err := os.Open(p); err == nil {
			sc := bufio.NewScanner(fh)
			sc.Buffer(make([]byte, 1<<20), 1<<26)
			for sc.Scan() {
				if b, err := hex.DecodeString(strings.TrimSpace(sc.Text())); err == nil {
					f.Add(b)
				}
			}
			fh.Close()
		}
	}
	lay := &vfT.Layout
	f.Fuzz(func(t *testing.T, b []byte) {
		a, s := vfEvalShape(b)
		L, ver, cnt := a["L"].(int), a["ver"].(int), a["cnt"].(int)
		want := ver == lay.Version && L >= lay.bodyStart(cnt)+lay.BodyFixed+1
		if _, p := s["panic"]; p {
			vfFuzzFlag(b, "panic")
			return
		}
		if _, m := s["malformed"]; m {
			vfFuzzFlag(b, "malformed")
			return
		}
		ok := s["ok"].(bool)
		if ok != want {
			vfFuzzFlag(b, fmt.Sprintf("verdict-%v", ok))
			return
		}
		if !ok {
			if s["partial"].(bool) {
				vfFuzzFlag(b, "partial")
			}
			return
		}
		if s["nsig"].(int) != cnt || s["plen"].(int) != L-(lay.bodyStart(cnt)+lay.BodyFixed) || !s["fieldsAt"].(bool) ||
			!s["reencEq"].(bool) || !s["digestH2Tail"].(bool) {
			vfFuzzFlag(b, fmt.Sprintf("content-cnt%d", cnt))
		}
	})
}
