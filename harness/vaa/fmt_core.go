package PKG

// Conformance harness of the "format" properties C04 C05 C06 C07 (VAAWire.tla, SigVerify.tla, Quorum.tla).
// Injected through `go test -overlay` (package clause rewritten) into
//   node/pkg/vaa                 as package vaa_test   (Marshal/Unmarshal/SerializeBody/SigningMsg/VerifySignatures)
//   node/pkg/processor           as package processor  (+ fmt_proc.go: handleMessage, CalculateQuorum)
//   explorer-backend/processor   as package processor  (+ explorer_fmt.go: verifyVAA, the node version the explorer links)
// It never exists under /repo.
//
// Every evaluation of the real code becomes ONE NDJSON line {"t","n","ev","a","s"}: `a` is the abstract
// description of the input in the vocabulary of the specification (byte tuples, shapes, [idx, signer]
// lists), `s` is what the real code returned.  The verdict is never computed here: lines that stem from a
// TLC-enumerated case are compared by the check with the value TLC exported for that case, and ALL lines
// are validated by TLC against Trace_VAAWire / Trace_SigVerify.  The only constants about the wire
// format used below (offsets, widths) are read from the tables TLC printed from VAAWire.tla.

import (
	"bufio"
	"bytes"
	"encoding/binary"
	"encoding/hex"
	"encoding/json"
	"fmt"
	"math/rand"
	"os"
	"path/filepath"
	"runtime"
	"runtime/debug"
	"strconv"
	"strings"
	"sync"
	"testing"
	"time"

	"github.com/alephium/wormhole-fork/node/pkg/vaa"
	ethcommon "github.com/ethereum/go-ethereum/common"
	ethcrypto "github.com/ethereum/go-ethereum/crypto"
)

// ---------------------------------------------------------------- byte tuples <-> JSON arrays of ints

type vfBytes []byte

func (b *vfBytes) UnmarshalJSON(d []byte) error {
	var xs []int
	if err := json.Unmarshal(d, &xs); err != nil {
		// TLC prints an empty function as {} in some positions
		if strings.TrimSpace(string(d)) == "{}" {
			*b = vfBytes{}
			return nil
		}
		return err
	}
	out := make([]byte, len(xs))
	for i, x := range xs {
		if x < 0 || x > 255 {
			return fmt.Errorf("byte out of range: %d", x)
		}
		out[i] = byte(x)
	}
	*b = out
	return nil
}

func vfInts(b []byte) []int {
	out := make([]int, len(b))
	for i, x := range b {
		out[i] = int(x)
	}
	return out
}

// ---------------------------------------------------------------- tables exported by TLC

type vfLayoutField struct {
	Name   string `json:"name"`
	Width  int    `json:"width"`
	Offset int    `json:"offset"`
}

type vfLayout struct {
	Header        []vfLayoutField `json:"header"`
	Sig           []vfLayoutField `json:"sig"`
	Body          []vfLayoutField `json:"body"`
	HeaderLen     int             `json:"headerLen"`
	SigWidth      int             `json:"sigWidth"`
	BodyFixed     int             `json:"bodyFixed"`
	PayloadOffset int             `json:"payloadOffset"`
	Version       int             `json:"version"`
}

type vfSig struct {
	Index vfBytes `json:"index"`
	R     vfBytes `json:"r"`
	S     vfBytes `json:"s"`
	V     vfBytes `json:"v"`
}

// vfVal is a VAA value of VAAWire.tla (every field a byte tuple) plus the sub-second part of the time.
type vfVal struct {
	Version          vfBytes `json:"version"`
	GuardianSetIndex vfBytes `json:"guardianSetIndex"`
	Sigs             []vfSig `json:"sigs"`
	Timestamp        vfBytes `json:"timestamp"`
	Nonce            vfBytes `json:"nonce"`
	EmitterChain     vfBytes `json:"emitterChain"`
	TargetChain      vfBytes `json:"targetChain"`
	EmitterAddress   vfBytes `json:"emitterAddress"`
	Sequence         vfBytes `json:"sequence"`
	ConsistencyLevel vfBytes `json:"consistencyLevel"`
	Payload          vfBytes `json:"payload"`
	Subsec           int     `json:"subsec"`
}

type vfTables struct {
	Layout  vfLayout `json:"layout"`
	Headers []vfVal  `json:"headers"`
}

var vfT *vfTables

func vfLoadTables() (*vfTables, error) {
	if vfT != nil {
		return vfT, nil
	}
	p := os.Getenv("VERIF_FMT_TABLES")
	if p == "" {
		return nil, fmt.Errorf("VERIF_FMT_TABLES not set")
	}
	b, err := os.ReadFile(p)
	if err != nil {
		return nil, err
	}
	t := &vfTables{}
	if err := json.Unmarshal(b, t); err != nil {
		return nil, err
	}
	if t.Layout.HeaderLen == 0 || t.Layout.SigWidth == 0 || t.Layout.BodyFixed == 0 {
		return nil, fmt.Errorf("layout table incomplete")
	}
	vfT = t
	return t, nil
}

func (l *vfLayout) bodyStart(n int) int { return l.HeaderLen + l.SigWidth*n }

// ---------------------------------------------------------------- abstract <-> concrete mapping
// A fixed-width field of the specification is the big-endian representation of the Go field's value.

func vfBE(b []byte) uint64 {
	var x uint64
	for _, c := range b {
		x = x<<8 | uint64(c)
	}
	return x
}

func vfToGo(v *vfVal) *vaa.VAA {
	g := &vaa.VAA{
		Timestamp:        time.Unix(int64(vfBE(v.Timestamp)), int64(v.Subsec)),
		Nonce:            uint32(vfBE(v.Nonce)),
		EmitterChain:     vaa.ChainID(vfBE(v.EmitterChain)),
		TargetChain:      vaa.ChainID(vfBE(v.TargetChain)),
		Sequence:         vfBE(v.Sequence),
		ConsistencyLevel: uint8(vfBE(v.ConsistencyLevel)),
		Payload:          append([]byte{}, v.Payload...),
	}
	copy(g.EmitterAddress[:], v.EmitterAddress)
	if len(v.Version) > 0 {
		g.Version = v.Version[0]
	}
	g.GuardianSetIndex = uint32(vfBE(v.GuardianSetIndex))
	for _, s := range v.Sigs {
		sg := &vaa.Signature{Index: s.Index[0]}
		copy(sg.Signature[0:32], s.R)
		copy(sg.Signature[32:64], s.S)
		copy(sg.Signature[64:65], s.V)
		g.Signatures = append(g.Signatures, sg)
	}
	return g
}

// vfGoField returns the bytes of the Go value for a field name of the specification's layout tables.
func vfGoField(v *vaa.VAA, name string) []byte {
	switch name {
	case "version":
		return []byte{v.Version}
	case "guardianSetIndex":
		return binary.BigEndian.AppendUint32(nil, v.GuardianSetIndex)
	case "numSignatures":
		return []byte{uint8(len(v.Signatures))}
	case "timestamp":
		// whole seconds, 32 bit: a time outside that range has no 4-byte representation (rendered as 8 bytes,
		// which no layout field matches)
		if u := v.Timestamp.Unix(); u < 0 || u > 0xffffffff {
			return binary.BigEndian.AppendUint64(nil, uint64(u))
		}
		return binary.BigEndian.AppendUint32(nil, uint32(v.Timestamp.Unix()))
	case "nonce":
		return binary.BigEndian.AppendUint32(nil, v.Nonce)
	case "emitterChain":
		return binary.BigEndian.AppendUint16(nil, uint16(v.EmitterChain))
	case "targetChain":
		return binary.BigEndian.AppendUint16(nil, uint16(v.TargetChain))
	case "emitterAddress":
		return append([]byte{}, v.EmitterAddress[:]...)
	case "sequence":
		return binary.BigEndian.AppendUint64(nil, v.Sequence)
	case "consistencyLevel":
		return []byte{v.ConsistencyLevel}
	}
	panic("vfGoField: unknown field " + name)
}

func vfGoSigField(s *vaa.Signature, name string) []byte {
	switch name {
	case "index":
		return []byte{s.Index}
	case "r":
		return append([]byte{}, s.Signature[0:32]...)
	case "s":
		return append([]byte{}, s.Signature[32:64]...)
	case "v":
		return append([]byte{}, s.Signature[64:65]...)
	}
	panic("vfGoSigField: unknown field " + name)
}

// vfFromGo renders a Go VAA as a value of the specification (exactly the fields of VAAWire's VAA record).
func vfFromGo(v *vaa.VAA) map[string]interface{} {
	m := map[string]interface{}{}
	for _, n := range []string{"version", "guardianSetIndex", "timestamp", "nonce", "emitterChain", "targetChain",
		"emitterAddress", "sequence", "consistencyLevel"} {
		m[n] = vfInts(vfGoField(v, n))
	}
	sigs := []interface{}{}
	for _, s := range v.Signatures {
		sm := map[string]interface{}{}
		for _, n := range []string{"index", "r", "s", "v"} {
			sm[n] = vfInts(vfGoSigField(s, n))
		}
		sigs = append(sigs, sm)
	}
	m["sigs"] = sigs
	m["payload"] = vfInts(v.Payload)
	return m
}

func vfValToMap(v *vfVal) map[string]interface{} {
	sigs := []interface{}{}
	for _, s := range v.Sigs {
		sigs = append(sigs, map[string]interface{}{"index": vfInts(s.Index), "r": vfInts(s.R), "s": vfInts(s.S), "v": vfInts(s.V)})
	}
	return map[string]interface{}{
		"version": vfInts(v.Version), "guardianSetIndex": vfInts(v.GuardianSetIndex), "sigs": sigs,
		"timestamp": vfInts(v.Timestamp), "nonce": vfInts(v.Nonce), "emitterChain": vfInts(v.EmitterChain),
		"targetChain": vfInts(v.TargetChain), "emitterAddress": vfInts(v.EmitterAddress), "sequence": vfInts(v.Sequence),
		"consistencyLevel": vfInts(v.ConsistencyLevel), "payload": vfInts(v.Payload),
	}
}

func vfKeccak2(b []byte) []byte { return ethcrypto.Keccak256(ethcrypto.Keccak256(b)) }

func vfCatch(f func()) (panicked string) {
	defer func() {
		if x := recover(); x != nil {
			panicked = fmt.Sprintf("%v\n%s", x, debug.Stack())
			if len(panicked) > 1500 {
				panicked = panicked[:1500]
			}
		}
	}()
	f()
	return ""
}

// ---------------------------------------------------------------- evaluations of the real code

// Encode: SerializeBody / Marshal / SigningMsg of a value.
func vfEvalEncode(v *vfVal) (map[string]interface{}, map[string]interface{}) {
	a := map[string]interface{}{"v": vfValToMap(v), "subsec": v.Subsec}
	s := map[string]interface{}{}
	var body, msh, dg []byte
	p := vfCatch(func() {
		g := vfToGo(v)
		body = g.SerializeBody()
		var err error
		msh, err = g.Marshal()
		if err != nil {
			panic("Marshal returned an error: " + err.Error())
		}
		dg = g.SigningMsg().Bytes()
	})
	if p != "" {
		s["panic"] = p
		return a, s
	}
	s["body"] = vfInts(body)
	s["marshal"] = vfInts(msh)
	s["digestH2"] = bytes.Equal(dg, vfKeccak2(body))
	s["digest"] = hex.EncodeToString(dg)
	return a, s
}

// ---- several values in flight (C04: determinism / injectivity are statements about values that exist at the same time)
//
// The evaluations are the same as vfEvalEncode; what differs is WHEN the results are looked at (the parameter
// a.mode of the Encode action):
//   retained   : a batch of values; the slice returned by SerializeBody of each value is HELD (not copied) while the
//                following values of the batch are serialized / marshalled / hashed; only then are its bytes logged and
//                the digest compared with the double hash of the retained bytes.
//   nested     : the payload of the value IS the slice SerializeBody returned for another message (no copy).
//   concurrent : k goroutines each serialize / marshal / hash their own value repeatedly, holding the returned body
//                across a scheduling point; every distinct outcome a goroutine saw is logged.
// The model decides each value separately, exactly as for a single evaluation.

type vfHeld struct {
	v             *vfVal
	body, msh, dg []byte
	panicked      string
}

func (h *vfHeld) line(mode string, extra map[string]interface{}) (map[string]interface{}, map[string]interface{}) {
	a := map[string]interface{}{"v": vfValToMap(h.v), "subsec": h.v.Subsec, "mode": mode}
	for k, x := range extra {
		a[k] = x
	}
	s := map[string]interface{}{}
	if h.panicked != "" {
		s["panic"] = h.panicked
		return a, s
	}
	s["body"] = vfInts(h.body) // read NOW, after everything else of the batch ran
	s["marshal"] = vfInts(h.msh)
	s["digestH2"] = bytes.Equal(h.dg, vfKeccak2(h.body))
	s["digest"] = hex.EncodeToString(h.dg)
	return a, s
}

func vfHold(v *vfVal, g *vaa.VAA) *vfHeld {
	h := &vfHeld{v: v}
	h.panicked = vfCatch(func() {
		h.body = g.SerializeBody() // kept as returned
		var err error
		h.msh, err = g.Marshal()
		if err != nil {
			panic("Marshal returned an error: " + err.Error())
		}
		h.dg = g.SigningMsg().Bytes()
	})
	return h
}

// vfEvalEncodeRetained: serialize all values of the batch first, look at the results afterwards.
func vfEvalEncodeRetained(vals []*vfVal, emit func(a, s map[string]interface{})) {
	held := make([]*vfHeld, len(vals))
	for i, v := range vals {
		held[i] = vfHold(v, vfToGo(v))
	}
	for i, h := range held {
		emit(h.line("retained", map[string]interface{}{"batch": len(vals), "pos": i}))
	}
}

// vfEvalEncodeNested: v2 carries, as its payload, the very slice that SerializeBody(v1) returned.  The abstract payload
// of v2 is the signing body of v1 as the harness's own serializer gives it.
func vfEvalEncodeNested(v1, v2 *vfVal, emit func(a, s map[string]interface{})) {
	g1 := vfToGo(v1)
	own := (&vhVAA{Ts: uint32(g1.Timestamp.Unix()), Nonce: g1.Nonce, EChain: uint16(g1.EmitterChain), TChain: uint16(g1.TargetChain),
		Emitter: g1.EmitterAddress, Seq: g1.Sequence, CL: g1.ConsistencyLevel, Payload: g1.Payload}).Body()
	abs := *v2
	abs.Payload = vfBytes(own)
	g2 := vfToGo(&abs)
	var h *vfHeld
	if p := vfCatch(func() { g2.Payload = g1.SerializeBody() }); p != "" {
		h = &vfHeld{v: &abs, panicked: p}
	} else {
		h = vfHold(&abs, g2)
	}
	emit(h.line("nested", nil))
}

// vfEvalEncodeConcurrent: one goroutine per value, `iters` rounds each.
func vfEvalEncodeConcurrent(vals []*vfVal, iters int, emit func(a, s map[string]interface{})) {
	type outcome struct{ body, msh, dg []byte }
	res := make([][]outcome, len(vals))
	pan := make([]string, len(vals))
	var wg sync.WaitGroup
	start := make(chan struct{})
	for i := range vals {
		wg.Add(1)
		go func(i int) {
			defer wg.Done()
			g := vfToGo(vals[i])
			seen := map[string]bool{}
			<-start
			pan[i] = vfCatch(func() {
				for it := 0; it < iters; it++ {
					body := g.SerializeBody()
					runtime.Gosched() // the body is in use while other goroutines serialize theirs
					o := outcome{body: append([]byte{}, body...)}
					var err error
					if o.msh, err = g.Marshal(); err != nil {
						panic("Marshal returned an error: " + err.Error())
					}
					o.dg = g.SigningMsg().Bytes()
					k := string(o.body) + "|" + string(o.msh) + "|" + string(o.dg)
					if !seen[k] && len(res[i]) < 4 {
						seen[k] = true
						res[i] = append(res[i], o)
					}
				}
			})
		}(i)
	}
	close(start)
	wg.Wait()
	for i, v := range vals {
		if pan[i] != "" {
			emit((&vfHeld{v: v, panicked: pan[i]}).line("concurrent", nil))
			continue
		}
		for _, o := range res[i] {
			h := &vfHeld{v: v, body: o.body, msh: o.msh, dg: o.dg}
			emit(h.line("concurrent", map[string]interface{}{"goroutines": len(vals), "iters": iters, "outcomes": len(res[i])}))
		}
	}
}

// vfValFromBody reads a signing body back into a value with the layout tables TLC exported (replay of nested cases).
func vfValFromBody(b []byte) *vfVal {
	lay := &vfT.Layout
	v := &vfVal{Version: vfBytes{byte(lay.Version)}, GuardianSetIndex: vfBytes{0, 0, 0, 0}}
	if len(b) < lay.BodyFixed {
		return nil
	}
	get := func(name string) vfBytes {
		for _, f := range lay.Body {
			if f.Name == name {
				return vfBytes(append([]byte{}, b[f.Offset:f.Offset+f.Width]...))
			}
		}
		return nil
	}
	v.Timestamp, v.Nonce, v.EmitterChain, v.TargetChain = get("timestamp"), get("nonce"), get("emitterChain"), get("targetChain")
	v.EmitterAddress, v.Sequence, v.ConsistencyLevel = get("emitterAddress"), get("sequence"), get("consistencyLevel")
	v.Payload = vfBytes(append([]byte{}, b[lay.PayloadOffset:]...))
	return v
}

// vfNeighbour: the same value with one body field changed (so that a batch holds messages that differ in one field).
func vfNeighbour(v *vfVal, k int) *vfVal {
	n := *v
	flip := func(b vfBytes) vfBytes {
		c := append(vfBytes{}, b...)
		if len(c) > 0 {
			c[len(c)-1] ^= 0x01
		}
		return c
	}
	switch k % 8 {
	case 0:
		n.Timestamp = flip(v.Timestamp)
	case 1:
		n.Nonce = flip(v.Nonce)
	case 2:
		n.EmitterChain = flip(v.EmitterChain)
	case 3:
		n.TargetChain = flip(v.TargetChain)
	case 4:
		n.EmitterAddress = flip(v.EmitterAddress)
	case 5:
		n.Sequence = flip(v.Sequence)
	case 6:
		n.ConsistencyLevel = flip(v.ConsistencyLevel)
	case 7:
		n.Payload = append(append(vfBytes{}, v.Payload...), 0x33)
	}
	return &n
}

type vfDecoded struct {
	v         *vaa.VAA
	err       error
	panicked  string
	malformed string // the decoder returned success with a value that is not a completely filled VAA
}

func vfRealUnmarshal(b []byte) vfDecoded {
	var d vfDecoded
	in := append([]byte{}, b...)
	d.panicked = vfCatch(func() { d.v, d.err = vaa.Unmarshal(in) })
	if d.panicked == "" && d.err == nil {
		if d.v == nil {
			d.malformed = "nil VAA returned without an error"
		} else {
			for i, s := range d.v.Signatures {
				if s == nil {
					d.malformed = fmt.Sprintf("partially filled VAA: Signatures[%d] is nil (of %d)", i, len(d.v.Signatures))
					break
				}
			}
		}
	}
	return d
}

// Decode (byte level, short inputs): the decoded fields are logged, TLC runs VAAWire!Decode on the input.
func vfEvalDecode(b []byte) (map[string]interface{}, map[string]interface{}) {
	a := map[string]interface{}{"bytes": vfInts(b), "L": len(b)}
	s := map[string]interface{}{}
	d := vfRealUnmarshal(b)
	if d.panicked != "" {
		s["panic"] = d.panicked
		return a, s
	}
	if d.malformed != "" {
		s["ok"] = true
		s["malformed"] = d.malformed
		return a, s
	}
	if d.err != nil {
		s["ok"] = false
		s["partial"] = d.v != nil
		s["err"] = d.err.Error()
		return a, s
	}
	s["ok"] = true
	s["partial"] = false
	var re, body, dg []byte
	p := vfCatch(func() {
		re, _ = d.v.Marshal()
		body = d.v.SerializeBody()
		dg = d.v.SigningMsg().Bytes()
	})
	if p != "" {
		s["panic"] = p
		return a, s
	}
	s["vaa"] = vfFromGo(d.v)
	s["reenc"] = vfInts(re)
	s["body"] = vfInts(body)
	s["digestH2"] = bytes.Equal(dg, vfKeccak2(body))
	s["plen"] = len(d.v.Payload)
	return a, s
}

// DecodeShape (long inputs): only the shape of the input is logged; the field-by-field comparison with the
// input is done here by slicing at the offsets of the layout tables TLC exported (the offset of the body
// that was used is logged and checked by TLC against BodyStart(cnt)).
func vfEvalShape(b []byte) (map[string]interface{}, map[string]interface{}) {
	lay := &vfT.Layout
	ver, cnt := 0, 0
	if len(b) > 0 {
		ver = int(b[0])
	}
	if len(b) > lay.HeaderLen-1 {
		cnt = int(b[lay.HeaderLen-1])
	}
	a := map[string]interface{}{"L": len(b), "ver": ver, "cnt": cnt}
	s := map[string]interface{}{}
	d := vfRealUnmarshal(b)
	if d.panicked != "" {
		s["panic"] = d.panicked
		return a, s
	}
	if d.malformed != "" {
		s["ok"] = true
		s["malformed"] = d.malformed
		return a, s
	}
	if d.err != nil {
		s["ok"] = false
		s["partial"] = d.v != nil
		s["err"] = d.err.Error()
		return a, s
	}
	v := d.v
	s["ok"] = true
	s["partial"] = false
	s["nsig"] = len(v.Signatures)
	s["plen"] = len(v.Payload)
	bs := lay.bodyStart(len(v.Signatures))
	s["bodyStart"] = bs
	fieldsAt := true
	bad := ""
	chk := func(name string, got []byte, off, width int) {
		if off+width > len(b) || !bytes.Equal(got, b[off:off+width]) {
			fieldsAt = false
			if bad == "" {
				bad = name
			}
		}
	}
	for _, f := range lay.Header {
		chk(f.Name, vfGoField(v, f.Name), f.Offset, f.Width)
	}
	for i, sg := range v.Signatures {
		for _, f := range lay.Sig {
			chk(fmt.Sprintf("sig[%d].%s", i, f.Name), vfGoSigField(sg, f.Name), lay.HeaderLen+i*lay.SigWidth+f.Offset, f.Width)
		}
	}
	for _, f := range lay.Body {
		chk(f.Name, vfGoField(v, f.Name), bs+f.Offset, f.Width)
	}
	if bs+lay.PayloadOffset > len(b) || !bytes.Equal(v.Payload, b[bs+lay.PayloadOffset:]) {
		fieldsAt = false
		if bad == "" {
			bad = "payload"
		}
	}
	s["fieldsAt"] = fieldsAt
	if bad != "" {
		s["firstBadField"] = bad
	}
	var re, dg []byte
	p := vfCatch(func() {
		re, _ = v.Marshal()
		dg = v.SigningMsg().Bytes()
	})
	if p != "" {
		s["panic"] = p
		return a, s
	}
	s["reencEq"] = bytes.Equal(re, b)
	s["digestH2Tail"] = bs <= len(b) && bytes.Equal(dg, vfKeccak2(b[bs:]))
	return a, s
}

// ---------------------------------------------------------------- signature verification (C06)

type vfASig struct {
	Idx    int    `json:"idx"`
	Signer string `json:"signer"`
}

type vfSigWorld struct {
	keys    *vhKeys
	body    *vaa.VAA
	digest  []byte // own digest (vh.go serializer + Keccak), not the code under test
	other   []byte // digest of another body
	sigMemo map[string][]byte
}

func vfNewSigWorld(seed string, variant int) *vfSigWorld {
	w := &vfSigWorld{keys: vhNewKeys(seed), sigMemo: map[string][]byte{}}
	h := vhExpand(fmt.Sprintf("vf-sigworld|%s|%d", seed, variant), 200)
	own := &vhVAA{Version: 1, SetIndex: binary.BigEndian.Uint32(h[0:4]), Ts: binary.BigEndian.Uint32(h[4:8]),
		Nonce: binary.BigEndian.Uint32(h[8:12]), EChain: binary.BigEndian.Uint16(h[12:14]), TChain: binary.BigEndian.Uint16(h[14:16]),
		Seq: binary.BigEndian.Uint64(h[16:24]), CL: h[24], Payload: append([]byte{}, h[60:60+1+int(h[25])%100]...)}
	copy(own.Emitter[:], h[26:58])
	w.digest = own.Digest()
	flipped := *own
	flipped.Payload = append([]byte{}, own.Payload...)
	flipped.Payload[0] ^= 0x01 // "changing any bit of the body"
	w.other = flipped.Digest()
	w.body = &vaa.VAA{Version: 1, GuardianSetIndex: own.SetIndex, Timestamp: time.Unix(int64(own.Ts), 0), Nonce: own.Nonce,
		EmitterChain: vaa.ChainID(own.EChain), TargetChain: vaa.ChainID(own.TChain), EmitterAddress: vaa.Address(own.Emitter),
		Sequence: own.Seq, ConsistencyLevel: own.CL, Payload: own.Payload}
	return w
}

var vfCurveN, _ = hex.DecodeString("fffffffffffffffffffffffffffffffebaaedce6af48a03bbfd25e8cd0364141")

// concrete makes a 65-byte signature whose abstract signer (over w.digest) is `signer`.
// `variant` selects among the malformed shapes for ERR.
func (w *vfSigWorld) concrete(signer string, variant int) [65]byte {
	var out [65]byte
	switch signer {
	case "JUNK":
		// a well-formed signature made over ANOTHER body: over this digest it recovers to some unrelated address
		copy(out[:], w.sign("k1", w.other, "other"))
	case "ERR":
		s := w.sign("k1", w.digest, "")
		copy(out[:], s)
		switch variant % 7 {
		case 0:
			out[64] = 9 // recovery id out of range
		case 1:
			out[64] = 27 // Ethereum-style v where 0/1 is expected
		case 2:
			for i := 0; i < 32; i++ { // r = 0
				out[i] = 0
			}
		case 3:
			for i := 32; i < 64; i++ { // s = 0
				out[i] = 0
			}
		case 4:
			out = [65]byte{} // all zero
		case 5:
			copy(out[0:32], vfCurveN) // r = group order (not a field element of the scalar group)
		case 6:
			for i := 0; i < 64; i++ { // r = s = 2^256-1
				out[i] = 0xff
			}
		}
	default:
		copy(out[:], w.sign(signer, w.digest, ""))
	}
	return out
}

func (w *vfSigWorld) sign(name string, digest []byte, tag string) []byte {
	k := name + "|" + tag
	if s, ok := w.sigMemo[k]; ok {
		return s
	}
	s := w.keys.Sign(name, digest)
	w.sigMemo[k] = s
	return s
}

// abstractOver classifies a concrete signature with the harness's own ecrecover over a digest the harness computed itself.
func (w *vfSigWorld) abstractOver(sig [65]byte, digest []byte) string {
	return w.keys.Recover(digest, sig[:])
}

// freshVAA builds a new VAA object with the world's body (no struct copy of an object that was used before).
func (w *vfSigWorld) freshVAA() *vaa.VAA {
	b := w.body
	return &vaa.VAA{Version: b.Version, GuardianSetIndex: b.GuardianSetIndex, Timestamp: b.Timestamp, Nonce: b.Nonce,
		EmitterChain: b.EmitterChain, TargetChain: b.TargetChain, EmitterAddress: b.EmitterAddress, Sequence: b.Sequence,
		ConsistencyLevel: b.ConsistencyLevel, Payload: append([]byte{}, b.Payload...)}
}

// vfOwnDigest: the digest of the CURRENT field values of a Go VAA, computed with the harness's own serializer.
func vfOwnDigest(v *vaa.VAA) []byte {
	own := &vhVAA{Ts: uint32(v.Timestamp.Unix()), Nonce: v.Nonce, EChain: uint16(v.EmitterChain), TChain: uint16(v.TargetChain),
		Emitter: v.EmitterAddress, Seq: v.Sequence, CL: v.ConsistencyLevel, Payload: v.Payload}
	return own.Digest()
}

type vfVerifyFn func(v *vaa.VAA, addrs []ethcommon.Address) bool

func vfRealVerify(v *vaa.VAA, addrs []ethcommon.Address) bool { return v.VerifySignatures(addrs) }

// the explorer's gate with the named set = the only (current) set
func vfExplorerVerify(v *vaa.VAA, addrs []ethcommon.Address) bool {
	return vfExplorerPushFn(v, [][]ethcommon.Address{addrs}, 0)
}

// the name of the all-zero address in abstract address lists: no key has it, no signature recovers to it
const vfZeroAddr = "ZERO"

func (w *vfSigWorld) addrsOf(names []string) ([]ethcommon.Address, []interface{}) {
	addrs := make([]ethcommon.Address, len(names))
	out := make([]interface{}, len(names))
	for i, n := range names {
		if n != vfZeroAddr {
			addrs[i] = w.keys.Addr(n)
		}
		out[i] = n
	}
	return addrs, out
}

// evalOn runs one real verification of v (which carries its signatures).  The abstract signature list that is
// logged is the one the harness's own recovery yields for the concrete bytes over `digest` (the harness's own
// digest of v's current body), so a concretisation slip cannot fake a verdict.
func (w *vfSigWorld) evalOn(v *vaa.VAA, digest []byte, addrNames []string, fn vfVerifyFn) (map[string]interface{}, map[string]interface{}) {
	addrs, names := w.addrsOf(addrNames)
	asigs := []interface{}{}
	for _, sg := range v.Signatures {
		asigs = append(asigs, map[string]interface{}{"idx": int(sg.Index), "signer": w.abstractOver(sg.Signature, digest)})
	}
	a := map[string]interface{}{"addrs": names, "sigs": asigs}
	s := map[string]interface{}{}
	res := false
	if p := vfCatch(func() { res = fn(v, addrs) }); p != "" {
		s["res"] = "panic"
		s["panic_text"] = p
	} else if res {
		s["res"] = "true"
	} else {
		s["res"] = "false"
	}
	return a, s
}

func (w *vfSigWorld) withSigs(idx []int, sigs [][65]byte) *vaa.VAA {
	v := w.freshVAA()
	for i := range sigs {
		v.Signatures = append(v.Signatures, &vaa.Signature{Index: uint8(idx[i]), Signature: sigs[i]})
	}
	return v
}

func (w *vfSigWorld) vfEvalVerify(addrNames []string, idx []int, sigs [][65]byte, fn vfVerifyFn) (map[string]interface{}, map[string]interface{}) {
	return w.evalOn(w.withSigs(idx, sigs), w.digest, addrNames, fn)
}

// ---------------------------------------------------------------- two-step histories on ONE VAA value (C04, C06)
// compute the digest / verify, THEN change a field in place (or on a struct copy), THEN ask again.

// body fields (each changes the signing body) and header / sub-second changes (which must not)
var vfMutations = []string{"timestamp", "nonce", "emitterChain", "targetChain", "emitterAddress", "sequence", "consistencyLevel",
	"payload-bit", "payload-append", "payload-truncate", "payload-replace",
	"subsecond", "version", "guardianSetIndex", "signatures"}

// vfMutate changes one field of the Go value.  shared = the Payload backing array is shared with another value
// (struct copy), so it must not be written through.
func vfMutate(v *vaa.VAA, field string, shared bool) {
	switch field {
	case "timestamp":
		if v.Timestamp.Unix() >= 0xffffffff { // stay within the 32-bit whole-second range the property speaks about
			v.Timestamp = v.Timestamp.Add(-time.Second)
		} else {
			v.Timestamp = v.Timestamp.Add(time.Second)
		}
	case "subsecond":
		v.Timestamp = time.Unix(v.Timestamp.Unix(), int64((v.Timestamp.Nanosecond()+123456789)%1000000000))
	case "nonce":
		v.Nonce++
	case "emitterChain":
		v.EmitterChain ^= 0x0100
	case "targetChain":
		v.TargetChain++
	case "emitterAddress":
		v.EmitterAddress[31] ^= 0x01
	case "sequence":
		v.Sequence++
	case "consistencyLevel":
		v.ConsistencyLevel ^= 0x80
	case "payload-bit":
		if len(v.Payload) == 0 {
			v.Payload = []byte{1}
		} else if shared {
			p := append([]byte{}, v.Payload...)
			p[len(p)/2] ^= 0x10
			v.Payload = p
		} else {
			v.Payload[len(v.Payload)/2] ^= 0x10 // in place, same backing array
		}
	case "payload-append":
		v.Payload = append(append([]byte{}, v.Payload...), 0)
	case "payload-truncate":
		if len(v.Payload) > 1 {
			v.Payload = v.Payload[:len(v.Payload)-1]
		} else {
			v.Payload = []byte{7, 7}
		}
	case "payload-replace":
		v.Payload = []byte("another payload")
	case "version":
		v.Version ^= 0x02
	case "guardianSetIndex":
		v.GuardianSetIndex++
	case "signatures":
		sg := &vaa.Signature{Index: 200}
		sg.Signature[3] = 9
		v.Signatures = append(append([]*vaa.Signature{}, v.Signatures...), sg)
	default:
		panic("vfMutate: unknown field " + field)
	}
}

// vfEvalRedigest (C04): v1 --SigningMsg--> d1, change `field`, --SigningMsg / SerializeBody / Marshal--> d2, body2, marshal2.
func vfEvalRedigest(base *vfVal, field string, copyMode bool) (map[string]interface{}, map[string]interface{}) {
	mode := "inplace"
	if copyMode {
		mode = "copy"
	}
	a := map[string]interface{}{"field": field, "mode": mode}
	s := map[string]interface{}{}
	p := vfCatch(func() {
		g := vfToGo(base)
		a["v1"] = vfFromGo(g)
		d1 := g.SigningMsg().Bytes()
		_ = g.HexDigest()
		_ = g.SerializeBody()
		target := g
		if copyMode {
			w := *g // struct copy: unexported fields travel with it
			target = &w
		}
		vfMutate(target, field, copyMode)
		a["v2"] = vfFromGo(target)
		d2 := target.SigningMsg().Bytes()
		body2 := target.SerializeBody()
		m2, err := target.Marshal()
		if err != nil {
			panic("Marshal returned an error: " + err.Error())
		}
		bs := vfT.Layout.bodyStart(len(target.Signatures))
		s["body2"] = vfInts(body2)
		s["marshal2"] = vfInts(m2)
		s["digest2H2"] = bytes.Equal(d2, vfKeccak2(body2))
		s["digestChanged"] = !bytes.Equal(d1, d2)
		s["bodyStart"] = bs
		s["digestFromMarshal"] = bs <= len(m2) && bytes.Equal(d2, vfKeccak2(m2[bs:]))
		// the value the copy was taken from keeps its own digest
		s["originalKept"] = !copyMode || (bytes.Equal(g.SigningMsg().Bytes(), d1) && bytes.Equal(d1, vfKeccak2(g.SerializeBody())))
		s["d1"], s["d2"] = hex.EncodeToString(d1), hex.EncodeToString(d2)
	})
	if p != "" {
		s["panic"] = p
	}
	return a, s
}

// vfEvalReverify (C06): verify once, change `field` of the same value (or of a struct copy), verify again.  The logged
// abstract signature list is the one over the digest of the CHANGED body (harness's own serializer): after a
// body change the old signatures recover to unrelated addresses, so the specification requires a rejection.
func (w *vfSigWorld) vfEvalReverify(addrNames []string, idx []int, sigs [][65]byte, fn vfVerifyFn, field string, copyMode bool) (map[string]interface{}, map[string]interface{}) {
	v := w.withSigs(idx, sigs)
	addrs, _ := w.addrsOf(addrNames)
	first := "false"
	if p := vfCatch(func() {
		if fn(v, addrs) {
			first = "true"
		}
		_ = v.SigningMsg()
		_ = v.HexDigest()
	}); p != "" {
		first = "panic"
	}
	target := v
	if copyMode {
		c := *v
		target = &c
	}
	vfMutate(target, field, copyMode)
	a, s := w.evalOn(target, vfOwnDigest(target), addrNames, fn)
	mode := "inplace"
	if copyMode {
		mode = "copy"
	}
	a["field"], a["mode"] = field, mode
	s["first"] = first
	return a, s
}

// vfExplorerSetsEval: two guardian sets (old = index 0 with nOld keys o1.., current = index 1 with nCur keys c1..); a VAA
// naming set `named`, validly signed by the first m guardians of that set, is pushed through the explorer's gate.
func vfExplorerSetsEval(w *vfSigWorld, nOld, nCur, named, m int) (map[string]interface{}, map[string]interface{}) {
	setNames := [][]string{make([]string, nOld), make([]string, nCur)}
	for k := range setNames[0] {
		setNames[0][k] = fmt.Sprintf("o%d", k+1)
	}
	for k := range setNames[1] {
		setNames[1][k] = fmt.Sprintf("c%d", k+1)
	}
	sets := make([][]ethcommon.Address, 2)
	for si := range sets {
		sets[si], _ = w.addrsOf(setNames[si])
	}
	idx := make([]int, m)
	sigs := make([][65]byte, m)
	for k := 0; k < m; k++ {
		idx[k] = k
		sigs[k] = w.concrete(setNames[named][k], 0)
	}
	fn := func(v *vaa.VAA, _ []ethcommon.Address) bool { return vfExplorerPushFn(v, sets, named) }
	a, s := w.vfEvalVerify(setNames[named], idx, sigs, fn)
	a["sets"] = []int{nOld, nCur}
	a["named"] = named
	return a, s
}

// ---------------------------------------------------------------- hooks filled by the per-package files

var vfQuorumFn func(int) int // CalculateQuorum as linked into this package (nil in pkg/vaa)
// explorer-backend: Push of the gossip consumer wired as in main.go; sets[i] = keys of guardian set i, the last
// one is current, the VAA names set `named` (nil elsewhere)
var vfExplorerPushFn func(v *vaa.VAA, sets [][]ethcommon.Address, named int) bool
var vfProcBodyFn func(t *testing.T, vecs []vfVector, tr *vhTrace) // node/pkg/processor: handleMessage

// ---------------------------------------------------------------- vectors exported by TLC

type vfVector struct {
	ID   int    `json:"id"`
	Kind string `json:"kind"`
	// C04 / C05V
	V *vfVal `json:"v"`
	// C05B
	Bytes vfBytes `json:"bytes"`
	// C05S
	L   int `json:"L"`
	Ver int `json:"ver"`
	N   int `json:"n"`
	// C06
	Addrs []string `json:"addrs"`
	Sigs  []vfASig `json:"sigs"`
	VKind string   `json:"vkind"`
	// replay of two-step histories / explorer set pairs
	Field string `json:"field"`
	Mode  string `json:"mode"`
	Idx   []int  `json:"idx"`
	Sets  []int  `json:"sets"`
	Named int    `json:"named"`
}

func vfLoadVectors(path string) ([]vfVector, error) {
	f, err := os.Open(path)
	if err != nil {
		return nil, err
	}
	defer f.Close()
	var res []vfVector
	sc := bufio.NewScanner(f)
	sc.Buffer(make([]byte, 1<<20), 1<<28)
	for sc.Scan() {
		if len(bytes.TrimSpace(sc.Bytes())) == 0 {
			continue
		}
		var v vfVector
		if err := json.Unmarshal(sc.Bytes(), &v); err != nil {
			return nil, fmt.Errorf("vector line: %v", err)
		}
		res = append(res, v)
	}
	return res, sc.Err()
}

func vfTag(a map[string]interface{}, v *vfVector) map[string]interface{} {
	a["id"] = v.ID
	a["kind"] = v.Kind
	return a
}

// shape -> bytes: seeded filler with the prescribed length, version byte and count byte
func vfFillShape(tag string, L, ver, cnt int) []byte {
	b := vhExpand(tag, L)
	if L > 0 {
		b[0] = byte(ver)
	}
	if L > vfT.Layout.HeaderLen-1 {
		b[vfT.Layout.HeaderLen-1] = byte(cnt)
	}
	return b
}

func vfMerge(bv *vfVal, h *vfVal) *vfVal {
	m := *bv
	m.Version, m.GuardianSetIndex, m.Sigs, m.Subsec = h.Version, h.GuardianSetIndex, h.Sigs, h.Subsec
	return &m
}

// TestVerifFmtVectors replays the cases TLC enumerated (VERIF_FMT_IN) on the real code.
func TestVerifFmtVectors(t *testing.T) {
	in, trPath := os.Getenv("VERIF_FMT_IN"), os.Getenv("VERIF_TRACE")
	if in == "" || trPath == "" {
		t.Skip("VERIF_FMT_IN / VERIF_TRACE not set")
	}
	if _, err := vfLoadTables(); err != nil {
		t.Fatal(err)
	}
	vecs, err := vfLoadVectors(in)
	if err != nil {
		t.Fatal(err)
	}
	tr, err := vhOpenTrace(trPath)
	if err != nil {
		t.Fatal(err)
	}
	defer tr.Close()
	seed := os.Getenv("VERIF_SEED")
	worlds := []*vfSigWorld{vfNewSigWorld(seed, 0), vfNewSigWorld(seed, 1), vfNewSigWorld(seed, 2)}
	var procVecs []vfVector
	var batch []*vfVal
	for i := range vecs {
		vc := &vecs[i]
		switch vc.Kind {
		case "C04":
			// every header (version, set index, signatures, sub-second time) around the same body value
			bodies, digests, tails := map[string]bool{}, map[string]bool{}, true
			panicked := ""
			for hi := range vfT.Headers {
				m := vfMerge(vc.V, &vfT.Headers[hi])
				_, s := vfEvalEncode(m)
				if p, ok := s["panic"]; ok {
					panicked = p.(string)
					continue
				}
				body := s["body"].([]int)
				msh := s["marshal"].([]int)
				bodies[fmt.Sprint(body)] = true
				digests[s["digest"].(string)] = true
				bs := vfT.Layout.bodyStart(len(m.Sigs))
				if bs > len(msh) || fmt.Sprint(msh[bs:]) != fmt.Sprint(body) {
					tails = false
				}
			}
			// one full line (rotating header) for TLC, carrying the summary over all headers
			m := vfMerge(vc.V, &vfT.Headers[vc.ID%len(vfT.Headers)])
			a, s := vfEvalEncode(m)
			s["distinctBodies"] = len(bodies)
			s["distinctDigests"] = len(digests)
			s["tailIsBody"] = tails
			s["headers"] = len(vfT.Headers)
			if panicked != "" {
				s["panic"] = panicked
			}
			tr.Emit(1, "Encode", vfTag(a, vc), s)
			procVecs = append(procVecs, *vc)
			// several values in flight: this value, its predecessors of the enumeration and one-field neighbours are all
			// serialized before any result is looked at; every 8th value also travels as the payload of another message
			batch = append(batch, m)
			if len(batch) == 4 {
				all := append([]*vfVal{}, batch...)
				for k, b := range batch {
					all = append(all, vfNeighbour(b, vc.ID+k))
				}
				vfEvalEncodeRetained(all, func(a, s map[string]interface{}) {
					a["src"] = "vec-retained"
					tr.Emit(1, "Encode", a, s)
				})
				batch = batch[:0]
			}
			if vc.ID%8 == 3 {
				vfEvalEncodeNested(m, vfMerge(vc.V, &vfT.Headers[(vc.ID+7)%len(vfT.Headers)]), func(a, s map[string]interface{}) {
					a["src"] = "vec-nested"
					tr.Emit(1, "Encode", a, s)
				})
			}
			// two-step history on this value: digest, change one field (rotating over all fields), digest again
			{
				a, s := vfEvalRedigest(m, vfMutations[vc.ID%len(vfMutations)], (vc.ID/len(vfMutations))%2 == 1)
				a["src"] = "vec-redigest"
				tr.Emit(1, "Redigest", a, s)
			}
		case "C05V":
			a, s := vfEvalEncode(vc.V)
			tr.Emit(1, "Encode", vfTag(a, vc), s)
		case "C05B", "C05E": // C05E: the expected encoding of a C05V value, fed to the decoder
			a, s := vfEvalDecode(vc.Bytes)
			tr.Emit(1, "Decode", vfTag(a, vc), s)
		case "C05S":
			b := vfFillShape(fmt.Sprintf("shape|%s|%d", seed, vc.ID), vc.L, vc.Ver, vc.N)
			a, s := vfEvalShape(b)
			tr.Emit(1, "DecodeShape", vfTag(a, vc), s)
		case "C06":
			w := worlds[vc.ID%len(worlds)]
			idx := make([]int, len(vc.Sigs))
			sigs := make([][65]byte, len(vc.Sigs))
			for k, sg := range vc.Sigs {
				idx[k] = sg.Idx
				sigs[k] = w.concrete(sg.Signer, vc.ID+k)
			}
			a, s := w.vfEvalVerify(vc.Addrs, idx, sigs, vfRealVerify)
			tr.Emit(1, "Verify", vfTag(a, vc), s)
			if vfExplorerPushFn != nil {
				a, s := w.vfEvalVerify(vc.Addrs, idx, sigs, vfExplorerVerify)
				tr.Emit(1, "ExplorerVerify", vfTag(a, vc), s)
			}
			// two-step history: a list that verifies, then one field of the same VAA value changes
			if vc.VKind == "valid" && len(sigs) > 0 {
				field, cp := vfMutations[vc.ID%len(vfMutations)], (vc.ID/len(vfMutations))%2 == 1
				a, s := w.vfEvalReverify(vc.Addrs, idx, sigs, vfRealVerify, field, cp)
				a["src"] = "vec-reverify"
				tr.Emit(1, "Verify", a, s)
				if vfExplorerPushFn != nil {
					a, s := w.vfEvalReverify(vc.Addrs, idx, sigs, vfExplorerVerify, field, cp)
					a["src"] = "vec-reverify"
					tr.Emit(1, "ExplorerVerify", a, s)
				}
			}
		case "C04B": // replay of a several-values-in-flight evaluation of one value
			emitB := func(a, s map[string]interface{}) {
				if a["pos"] == nil || a["pos"].(int) == 0 {
					tr.Emit(1, "Encode", vfTag(a, vc), s)
				}
			}
			switch vc.Mode {
			case "nested":
				if v1 := vfValFromBody(vc.V.Payload); v1 != nil {
					vfEvalEncodeNested(v1, vc.V, emitB)
				}
			case "concurrent":
				vals := []*vfVal{vc.V}
				for k := 0; k < 7; k++ {
					vals = append(vals, vfNeighbour(vc.V, k))
				}
				vfEvalEncodeConcurrent(vals, 300, func(a, s map[string]interface{}) {
					if fmt.Sprint(a["v"]) == fmt.Sprint(vfValToMap(vc.V)) {
						tr.Emit(1, "Encode", vfTag(a, vc), s)
					}
				})
			default:
				vals := []*vfVal{vc.V}
				for k := 0; k < 8; k++ {
					vals = append(vals, vfNeighbour(vc.V, k))
				}
				vfEvalEncodeRetained(vals, emitB)
			}
		case "C04R": // replay of a two-step digest history
			a, s := vfEvalRedigest(vc.V, vc.Field, vc.Mode == "copy")
			tr.Emit(1, "Redigest", vfTag(a, vc), s)
		case "C06R": // replay of a two-step verification history (valid signatures at vc.Idx, then a field changes)
			w := worlds[0]
			sigs := make([][65]byte, len(vc.Idx))
			for k, ix := range vc.Idx {
				if ix < len(vc.Addrs) {
					sigs[k] = w.concrete(vc.Addrs[ix], 0)
				}
			}
			a, s := w.vfEvalReverify(vc.Addrs, vc.Idx, sigs, vfRealVerify, vc.Field, vc.Mode == "copy")
			tr.Emit(1, "Verify", vfTag(a, vc), s)
			if vfExplorerPushFn != nil {
				a, s := w.vfEvalReverify(vc.Addrs, vc.Idx, sigs, vfExplorerVerify, vc.Field, vc.Mode == "copy")
				tr.Emit(1, "ExplorerVerify", vfTag(a, vc), s)
			}
		case "C07X": // replay of an explorer push with two guardian sets
			if vfExplorerPushFn == nil || len(vc.Sets) != 2 {
				t.Fatal("C07X vectors need the explorer package")
			}
			a, s := vfExplorerSetsEval(worlds[0], vc.Sets[0], vc.Sets[1], vc.Named, len(vc.Idx))
			tr.Emit(1, "ExplorerVerify", vfTag(a, vc), s)
		case "C07":
			if vfQuorumFn == nil {
				t.Fatal("C07 vectors need a package that links CalculateQuorum")
			}
			q := -1
			s := map[string]interface{}{}
			if p := vfCatch(func() { q = vfQuorumFn(vc.N) }); p != "" {
				s["panic"] = p
			}
			s["q"] = q
			tr.Emit(1, "Quorum", vfTag(map[string]interface{}{"n": vc.N}, vc), s)
		default:
			t.Fatalf("unknown vector kind %q", vc.Kind)
		}
	}
	if vfProcBodyFn != nil && len(procVecs) > 0 {
		vfProcBodyFn(t, procVecs, tr)
	}
	fmt.Printf("VERIF-FMT vectors=%d lines=%d\n", len(vecs), tr.n)
}

// ---------------------------------------------------------------- seeded generators (wide concrete domain)

func vfPick(r *rand.Rand, xs ...int) int { return xs[r.Intn(len(xs))] }

// payload lengths at the integer-width boundaries of a length (and around the sizes of plausible internal buffers)
var vfLenBoundaries = []int{1, 2, 255, 256, 257, 998, 999, 1000, 1001, 1002, 1999, 2000, 2001, 4096, 4999, 5000, 32767, 32768,
	65534, 65535, 65536, 65537, 70000, 131071, 131072, 131073, 1 << 20}

func vfRandBytes(r *rand.Rand, n int) vfBytes {
	b := make([]byte, n)
	switch r.Intn(6) {
	case 0: // zeros
	case 1:
		for i := range b {
			b[i] = 0xff
		}
	case 2:
		if n > 0 {
			b[n-1] = 1
		}
	case 3:
		if n > 0 {
			b[0] = 0x80
		}
	default:
		r.Read(b)
	}
	return b
}

func vfRandVal(r *rand.Rand, nsig, plen int) *vfVal {
	v := &vfVal{Version: vfBytes{1}, GuardianSetIndex: vfRandBytes(r, 4), Timestamp: vfRandBytes(r, 4), Nonce: vfRandBytes(r, 4),
		EmitterChain: vfRandBytes(r, 2), TargetChain: vfRandBytes(r, 2), EmitterAddress: vfRandBytes(r, 32),
		Sequence: vfRandBytes(r, 8), ConsistencyLevel: vfRandBytes(r, 1), Payload: vfRandBytes(r, plen),
		Subsec: vfPick(r, 0, 0, 1, 500000000, 999999999)}
	if r.Intn(8) == 0 {
		v.Version = vfRandBytes(r, 1)
	}
	for i := 0; i < nsig; i++ {
		v.Sigs = append(v.Sigs, vfSig{Index: vfRandBytes(r, 1), R: vfRandBytes(r, 32), S: vfRandBytes(r, 32), V: vfRandBytes(r, 1)})
	}
	return v
}

func vfEmitDecodeAuto(tr *vhTrace, b []byte, src string) {
	if len(b) <= 420 {
		a, s := vfEvalDecode(b)
		a["src"] = src
		tr.Emit(2, "Decode", a, s)
	} else {
		a, s := vfEvalShape(b)
		a["src"] = src
		tr.Emit(2, "DecodeShape", a, s)
	}
}

func vfParseCorpusFile(p string) ([]byte, bool) {
	raw, err := os.ReadFile(p)
	if err != nil {
		return nil, false
	}
	lines := strings.Split(string(raw), "\n")
	if len(lines) < 2 || !strings.HasPrefix(lines[0], "go test fuzz v1") {
		return nil, false
	}
	l := strings.TrimSpace(lines[1])
	if !strings.HasPrefix(l, "[]byte(") || !strings.HasSuffix(l, ")") {
		return nil, false
	}
	q := l[len("[]byte(") : len(l)-1]
	s, err := strconv.Unquote(q)
	if err != nil {
		return nil, false
	}
	return []byte(s), true
}

// TestVerifFmtTrace runs the seeded generators named in VERIF_FMT_GEN (comma separated) and records every
// evaluation; the scale is VERIF_FMT_N.
func TestVerifFmtTrace(t *testing.T) {
	gens, trPath := os.Getenv("VERIF_FMT_GEN"), os.Getenv("VERIF_TRACE")
	if gens == "" || trPath == "" {
		t.Skip("VERIF_FMT_GEN / VERIF_TRACE not set")
	}
	if _, err := vfLoadTables(); err != nil {
		t.Fatal(err)
	}
	tr, err := vhOpenTrace(trPath)
	if err != nil {
		t.Fatal(err)
	}
	defer tr.Close()
	seedStr := os.Getenv("VERIF_SEED")
	seedN, _ := strconv.Atoi(seedStr)
	N, _ := strconv.Atoi(os.Getenv("VERIF_FMT_N"))
	if N <= 0 {
		N = 100
	}
	lay := &vfT.Layout
	for gi, g := range strings.Split(gens, ",") {
		r := rand.New(rand.NewSource(int64(seedN)*7919 + int64(gi)*104729 + 17))
		switch g {
		case "encode": // C04/C05: random values, every field random or boundary, payload 0..5000, 0..255 signatures
			for i := 0; i < N; i++ {
				nsig := vfPick(r, 0, 0, 1, 1, 2, 3, 13, 19)
				plen := r.Intn(130)
				switch {
				case i%40 == 7:
					plen = vfPick(r, 999, 1000, 1001, 1500, 2000, 4999, 5000)
				case i%97 == 11:
					nsig = 255
				}
				v := vfRandVal(r, nsig, plen)
				a, s := vfEvalEncode(v)
				a["src"] = "gen-encode"
				tr.Emit(2, "Encode", a, s)
				// header independence: the same body under another header
				if i%3 == 0 {
					h := vfRandVal(r, vfPick(r, 0, 1, 2), 0)
					m := vfMerge(v, h)
					a, s := vfEvalEncode(m)
					a["src"] = "gen-encode-header"
					tr.Emit(2, "Encode", a, s)
				}
				// round trip: decode what the real encoder produced (valid when version = 1 and payload non-empty)
				if msh, ok := s["marshal"].([]int); ok {
					b := make([]byte, len(msh))
					for k, x := range msh {
						b[k] = byte(x)
					}
					vfEmitDecodeAuto(tr, b, "gen-roundtrip")
				}
			}
			// several values in flight: batches whose results are looked at only after the whole batch ran, and values
			// that travel as the payload of another message
			for i := 0; i < N/10+2; i++ {
				base := vfRandVal(r, vfPick(r, 0, 1, 2), r.Intn(120))
				vals := []*vfVal{base}
				for k := 0; k < 8; k++ {
					vals = append(vals, vfNeighbour(base, k))
				}
				vals = append(vals, vfRandVal(r, 0, vfPick(r, 0, 1, 500, 1500)), vfRandVal(r, 1, r.Intn(60)))
				vfEvalEncodeRetained(vals, func(a, s map[string]interface{}) {
					a["src"] = "gen-retained"
					tr.Emit(2, "Encode", a, s)
				})
				vfEvalEncodeNested(base, vfRandVal(r, vfPick(r, 0, 1), 0), func(a, s map[string]interface{}) {
					a["src"] = "gen-nested"
					tr.Emit(2, "Encode", a, s)
				})
			}
			// payload lengths at integer-width boundaries (full values: TLC recomputes body and encoding)
			bl := []int{255, 256, 257, 65536}
			if N >= 1000 {
				bl = vfLenBoundaries[:len(vfLenBoundaries)-1] // all but 1<<20 (that one is covered by the shape generator)
			}
			for _, plen := range bl {
				v := vfRandVal(r, vfPick(r, 0, 1), plen)
				v.Version = vfBytes{byte(lay.Version)}
				a, s := vfEvalEncode(v)
				a["src"] = "gen-encode-boundary"
				tr.Emit(2, "Encode", a, s)
				if msh, ok := s["marshal"].([]int); ok {
					b := make([]byte, len(msh))
					for k, x := range msh {
						b[k] = byte(x)
					}
					vfEmitDecodeAuto(tr, b, "gen-roundtrip-boundary")
				}
			}
		case "concurrent": // C04: goroutines serializing / hashing their own values at the same time (run under -race when available)
			rounds := N/100 + 2
			for i := 0; i < rounds; i++ {
				base := vfRandVal(r, vfPick(r, 0, 1), r.Intn(200))
				vals := []*vfVal{base}
				for k := 0; k < 8; k++ {
					vals = append(vals, vfNeighbour(base, k))
				}
				for k := 0; k < 7; k++ {
					vals = append(vals, vfRandVal(r, vfPick(r, 0, 1, 2), r.Intn(300)))
				}
				vfEvalEncodeConcurrent(vals, 200, func(a, s map[string]interface{}) {
					a["src"] = "gen-concurrent"
					tr.Emit(2, "Encode", a, s)
				})
			}
		case "procbody": // C04: random messages through the processor's handleMessage (two guardians each)
			if vfProcBodyFn == nil {
				t.Fatal("procbody generator needs the processor package")
			}
			var vecs []vfVector
			for i := 0; i < N; i++ {
				plen := r.Intn(200)
				if i%25 == 4 {
					plen = vfPick(r, 0, 999, 1000, 1001, 3000)
				}
				vecs = append(vecs, vfVector{ID: i + 1, Kind: "gen-procbody", V: vfRandVal(r, 0, plen)})
			}
			vfProcBodyFn(t, vecs, tr)
		case "bytes": // C05: arbitrary short byte strings, biased towards plausible headers
			for i := 0; i < N; i++ {
				L := r.Intn(300)
				if r.Intn(4) == 0 {
					L = vfPick(r, 0, 1, 5, 6, 56, 57, 58, 59, 60, 61, 125, 126, 127, 191, 192, 193)
				}
				b := make([]byte, L)
				r.Read(b)
				if L > 0 && r.Intn(10) < 8 {
					b[0] = byte(lay.Version)
				}
				if L > lay.HeaderLen-1 && r.Intn(10) < 8 {
					b[lay.HeaderLen-1] = byte(vfPick(r, 0, 0, 1, 1, 2, 3, 4, 255))
				}
				vfEmitDecodeAuto(tr, b, "gen-bytes")
			}
		case "bitflip": // C05: every single-bit flip of a valid encoding
			nsig := 0
			if N >= 1000 {
				nsig = 1
			}
			v := vfRandVal(r, nsig, 3)
			v.Version = vfBytes{byte(lay.Version)}
			msh, err := vfToGo(v).Marshal()
			if err != nil {
				t.Fatal(err)
			}
			vfEmitDecodeAuto(tr, msh, "gen-bitflip-base")
			for bit := 0; bit < len(msh)*8; bit++ {
				b := append([]byte{}, msh...)
				b[bit/8] ^= 1 << uint(bit%8)
				vfEmitDecodeAuto(tr, b, "gen-bitflip")
			}
		case "shape": // C05: payload lengths 1..5000 (all of them when N >= 5000), signature counts 0..255, lying count bytes
			for i := 0; i < N; i++ {
				cnt := vfPick(r, 0, 0, 0, 1, 1, 2, 3, 13, 19, 254, 255)
				var plen int
				if N >= 5000 {
					plen = 1 + i%5000
				} else {
					plen = 1 + (i*5000/N+r.Intn(5000/N+1))%5000
					if i%10 == 3 {
						plen = vfLenBoundaries[r.Intn(len(vfLenBoundaries))] // integer-width boundaries of a length
					}
				}
				L := lay.bodyStart(cnt) + lay.BodyFixed + plen
				ver := lay.Version
				switch i % 23 {
				case 5:
					ver = vfPick(r, 0, 2, 255)
				case 9: // count byte claims more signatures than the input holds
					L = lay.bodyStart(cnt) - r.Intn(lay.SigWidth+2)
					if L < 0 {
						L = 0
					}
				case 14: // body cut inside the fixed fields or exactly before the payload
					L = lay.bodyStart(cnt) + r.Intn(lay.BodyFixed+1)
				}
				b := vfFillShape(fmt.Sprintf("genshape|%s|%d", seedStr, i), L, ver, cnt)
				a, s := vfEvalShape(b)
				a["src"] = "gen-shape"
				tr.Emit(2, "DecodeShape", a, s)
			}
			// every integer-width boundary of the payload length, deterministically (also in the thorough tier)
			for bi, plen := range vfLenBoundaries {
				cnts := []int{0}
				if N >= 5000 {
					cnts = []int{0, 1, 255}
				}
				for _, cnt := range cnts {
					b := vfFillShape(fmt.Sprintf("genshapeb|%s|%d", seedStr, bi), lay.bodyStart(cnt)+lay.BodyFixed+plen, lay.Version, cnt)
					a, s := vfEvalShape(b)
					a["src"] = "gen-shape-boundary"
					tr.Emit(2, "DecodeShape", a, s)
				}
			}
		case "corpus": // C05: the corpus of a coverage-guided fuzzing run (+ inputs its online oracle flagged)
			dir := os.Getenv("VERIF_FUZZ_CORPUS")
			n := 0
			filepath.Walk(dir, func(p string, info os.FileInfo, err error) error {
				if err != nil || info.IsDir() {
					return nil
				}
				var b []byte
				if strings.HasSuffix(p, ".hex") {
					raw, _ := os.ReadFile(p)
					for _, ln := range strings.Split(string(raw), "\n") {
						ln = strings.TrimSpace(ln)
						if ln == "" {
							continue
						}
						if x, err := hex.DecodeString(ln); err == nil {
							vfEmitDecodeAuto(tr, x, "fuzz-flagged")
							n++
						}
					}
					return nil
				}
				var ok bool
				if b, ok = vfParseCorpusFile(p); ok {
					vfEmitDecodeAuto(tr, b, "fuzz-corpus")
					n++
				}
				return nil
			})
			fmt.Printf("VERIF-FMT corpus inputs=%d\n", n)
		case "verifyconc": // C06: several verifications in flight at once, each goroutine on its own message (its own digest)
			const G = 12
			var wg sync.WaitGroup
			start := make(chan struct{})
			for g := 0; g < G; g++ {
				wg.Add(1)
				go func(g int) {
					defer wg.Done()
					w := vfNewSigWorld(seedStr, 100+g)
					n := []int{1, 3, 4, 7, 13, 19}[g%6]
					names := make([]string, n)
					for k := range names {
						names[k] = fmt.Sprintf("k%d", k+1)
					}
					q := (2*n)/3 + 1
					idx := make([]int, q)
					sigs := make([][65]byte, q)
					for k := 0; k < q; k++ {
						idx[k] = k + (n - q)
						sigs[k] = w.concrete(names[idx[k]], 0)
					}
					bad := append([][65]byte{}, sigs...)
					bad[q-1] = w.concrete("JUNK", 0) // the last signature is over another body: must be refused every time
					seen := map[string]bool{}
					<-start
					for it := 0; it < 400+N; it++ {
						for _, sg := range [][][65]byte{sigs, bad} {
							a, st := w.vfEvalVerify(names, idx, sg, vfRealVerify)
							key := fmt.Sprint(a["sigs"], st)
							if seen[key] || len(seen) >= 6 {
								continue
							}
							seen[key] = true
							a["src"] = "gen-verify-concurrent"
							tr.Emit(2, "Verify", a, st)
						}
						if it%16 == 0 {
							runtime.Gosched()
						}
					}
				}(g)
			}
			close(start)
			wg.Wait()
		case "verify": // C06: lists of up to 256 addresses, repeated addresses, index 255, random corruptions
			type evfn struct {
				ev string
				fn vfVerifyFn
			}
			fns := []evfn{{"Verify", vfRealVerify}}
			if vfExplorerPushFn != nil {
				fns = append(fns, evfn{"ExplorerVerify", vfExplorerVerify})
			}
			w := vfNewSigWorld(seedStr, 7)
			for i := 0; i < N; i++ {
				n := vfPick(r, 0, 1, 2, 3, 4, 5, 7, 13, 19, 20, 64)
				if i%25 == 3 {
					n = vfPick(r, 100, 254, 255, 255, 256)
				}
				distinct := n
				if n > 1 && r.Intn(3) == 0 { // repeated addresses
					distinct = 1 + r.Intn(n)
				}
				names := make([]string, n)
				for k := range names {
					if k < distinct {
						names[k] = fmt.Sprintf("k%d", k+1)
					} else {
						names[k] = fmt.Sprintf("k%d", 1+r.Intn(distinct))
					}
				}
				r.Shuffle(n, func(x, y int) { names[x], names[y] = names[y], names[x] })
				// signer subset around the quorum sizes
				q := (2*n)/3 + 1
				size := vfPick(r, 0, 1, q-1, q, q, q+1, n, n)
				if size < 0 {
					size = 0
				}
				if size > n {
					size = n
				}
				perm := r.Perm(n)[:size]
				// ascending order
				for x := 0; x < len(perm); x++ {
					for y := x + 1; y < len(perm); y++ {
						if perm[y] < perm[x] {
							perm[x], perm[y] = perm[y], perm[x]
						}
					}
				}
				idx := append([]int{}, perm...)
				sigs := make([][65]byte, len(idx))
				for k, ix := range idx {
					sigs[k] = w.concrete(names[ix], 0)
				}
				// 0, 1 or 2 corruptions
				for c := vfPick(r, 0, 1, 1, 1, 2); c > 0 && len(idx) > 0; c-- {
					k := r.Intn(len(idx))
					switch r.Intn(11) {
					case 0: // body changed: every signature is now over another digest
						for x := range sigs {
							sigs[x] = w.concrete("JUNK", 0)
						}
					case 1: // swap
						o := r.Intn(len(idx))
						idx[k], idx[o] = idx[o], idx[k]
						sigs[k], sigs[o] = sigs[o], sigs[k]
					case 2: // duplicate
						idx = append(idx[:k+1], idx[k:]...)
						sigs = append(sigs[:k+1], sigs[k:]...)
					case 3: // re-index
						idx[k] = vfPick(r, 0, n-1, n, 255, r.Intn(256), (idx[k]+1)%256)
						if idx[k] < 0 {
							idx[k] = 0
						}
					case 4: // outsider key
						sigs[k] = w.concrete("x", 0)
					case 5: // another member's key
						if n > 0 {
							sigs[k] = w.concrete(names[r.Intn(n)], 0)
						}
					case 6, 7: // malformed r/s/v
						sigs[k] = w.concrete("ERR", r.Intn(7))
					case 8: // one signature over another body
						sigs[k] = w.concrete("JUNK", 0)
					case 9: // single random bit of the signature bytes
						sigs[k][r.Intn(65)] ^= 1 << uint(r.Intn(8))
					case 10: // malleated (s -> N - s, v flipped): the same signer, must still be accepted
						sigs[k] = vfMalleate(sigs[k])
					}
				}
				for _, f := range fns {
					a, s := w.vfEvalVerify(names, idx, sigs, f.fn)
					a["src"] = "gen-verify"
					tr.Emit(2, f.ev, a, s)
				}
			}
			emit := func(src string, names []string, idx []int) {
				sigs := make([][65]byte, len(idx))
				for k, ix := range idx {
					if ix < len(names) {
						sigs[k] = w.concrete(names[ix], 0)
					} else {
						sigs[k] = w.concrete("x", 0)
					}
				}
				for _, f := range fns {
					a, s := w.vfEvalVerify(names, idx, sigs, f.fn)
					a["src"] = src
					tr.Emit(2, f.ev, a, s)
				}
			}
			distinctNames := func(n int) []string {
				names := make([]string, n)
				for k := range names {
					names[k] = fmt.Sprintf("k%d", k+1)
				}
				return names
			}
			// (a) order of indices around every width boundary of an index (127/128/129, 255): individually valid
			// signatures in descending / equal / ascending order, in lists longer than 128
			for _, n := range []int{129, 130, 200, 255, 256} {
				names := distinctNames(n)
				his := []int{126, 127, 128, 129, 130, 139, n - 2, n - 1}
				los := []int{0, 1, 5, 64, 126, 127, 128, 129}
				for _, hi := range his {
					for _, lo := range los {
						if hi >= n || lo >= n {
							continue
						}
						emit("gen-verify-order128", names, []int{hi, lo}) // descending when lo < hi, equal, or ascending
						if lo < hi {
							emit("gen-verify-order128", names, []int{lo, hi})
						}
					}
				}
				for _, pat := range [][]int{{3, 131, 7, 132}, {0, 128, 1}, {127, 128, 129}, {126, 127, 128, 129, 130}, {130, 5}, {139, 128},
					{n - 1, 0}, {0, n - 1}, {128, 127}, {128, 128}, {5, 130, 6}, {100, 127, 128, 3}, {1, 2, 200, 3, 4}} {
					ok := true
					for _, x := range pat {
						if x >= n || x < 0 {
							ok = false
						}
					}
					if ok {
						emit("gen-verify-order128", names, pat)
					}
				}
				// a quorum-sized ascending list with one pair swapped across 128
				all := []int{}
				for k := 0; k < n; k++ {
					all = append(all, k)
				}
				emit("gen-verify-order128", names, all)
				sw := append([]int{}, all...)
				sw[5], sw[n-3] = sw[n-3], sw[5]
				emit("gen-verify-order128", names, sw)
				sw2 := append([]int{}, all...)
				sw2[127], sw2[128] = sw2[128], sw2[127]
				emit("gen-verify-order128", names, sw2)
			}
			// (b) lists that repeat an address at adjacent and NON-adjacent positions; the guardian signs at one or at
			// several of its positions, with other guardians' signatures in between
			for _, pat := range [][]int{{1, 2, 1}, {1, 2, 3, 1}, {1, 2, 1, 2}, {1, 1, 2, 1}, {1, 2, 3, 4, 1}, {1, 2, 2, 3, 1}, {1, 1}, {1, 2, 3, 2, 4, 1, 5},
				{1, 2, 3, 4, 5, 6, 7, 8, 9, 1}, {2, 1, 3, 1, 4, 1}} {
				names := make([]string, len(pat))
				for k, x := range pat {
					names[k] = fmt.Sprintf("k%d", x)
				}
				n := len(pat)
				for mask := 1; mask < 1<<uint(n) && mask < 1<<10; mask++ { // every signer subset (ascending)
					if n > 7 && mask%7 != 3 && mask != (1<<uint(n))-1 && mask != 1|1<<uint(n-1) && mask != 1|2|1<<uint(n-1) {
						continue
					}
					idx := []int{}
					for k := 0; k < n; k++ {
						if mask&(1<<uint(k)) != 0 {
							idx = append(idx, k)
						}
					}
					emit("gen-verify-repeats", names, idx)
				}
			}
			// (d) guardian lists that contain the all-zero address (alone, first, middle, last, next to valid members),
			// with every malformed-signature shape claiming that index and other indices
			for _, names := range [][]string{{vfZeroAddr}, {vfZeroAddr, "k1"}, {"k1", vfZeroAddr}, {"k1", vfZeroAddr, "k2"}, {"k1", "k2", vfZeroAddr},
				{vfZeroAddr, "k1", "k2", "k3"}, {"k1", "k2", vfZeroAddr, "k3", "k4"}, {vfZeroAddr, vfZeroAddr}, {"k1", vfZeroAddr, "k2", vfZeroAddr}} {
				n := len(names)
				for zi, zn := range names {
					for shape := 0; shape < 9; shape++ {
						var bad [65]byte
						switch shape {
						case 7:
							bad = w.concrete("JUNK", 0)
						case 8:
							bad = w.concrete("x", 0)
						default:
							bad = w.concrete("ERR", shape)
						}
						// the malformed signature alone at index zi, and together with valid signatures of the members
						for _, withMembers := range []bool{false, true} {
							idx := []int{}
							sigs := [][65]byte{}
							for k := 0; k < n; k++ {
								switch {
								case k == zi:
									idx = append(idx, k)
									sigs = append(sigs, bad)
								case withMembers && names[k] != vfZeroAddr:
									idx = append(idx, k)
									sigs = append(sigs, w.concrete(names[k], 0))
								}
							}
							if !withMembers && zn != vfZeroAddr && shape > 0 && n > 3 {
								continue
							}
							for _, f := range fns {
								a, s := w.vfEvalVerify(names, idx, sigs, f.fn)
								a["src"] = "gen-verify-zeroaddr"
								tr.Emit(2, f.ev, a, s)
							}
						}
					}
				}
			}
			// (c) two-step histories: a list that verifies, then one field of the same VAA value (or of a struct copy) changes
			for ci, cfg := range []struct{ n, m int }{{1, 1}, {3, 3}, {4, 3}, {19, 13}} {
				names := distinctNames(cfg.n)
				idx := []int{}
				for k := 0; k < cfg.m; k++ {
					idx = append(idx, k)
				}
				sigs := make([][65]byte, len(idx))
				for k, ix := range idx {
					sigs[k] = w.concrete(names[ix], 0)
				}
				for fi, field := range vfMutations {
					for _, cp := range []bool{false, true} {
						if N < 1000 && ci > 1 && (fi+ci)%3 != 0 {
							continue
						}
						for _, f := range fns {
							a, s := w.vfEvalReverify(names, idx, sigs, f.fn, field, cp)
							a["src"] = "gen-reverify"
							tr.Emit(2, f.ev, a, s)
						}
					}
				}
			}
		case "explorerquorum": // C07: the explorer's gate uses the quorum of the set the VAA NAMES, whatever the current set is
			if vfExplorerPushFn == nil {
				t.Fatal("explorerquorum generator needs the explorer package")
			}
			w := vfNewSigWorld(seedStr, 9)
			sizes := []int{1, 2, 3, 4, 5, 6, 7, 9, 13, 19}
			if N >= 1000 {
				sizes = append(sizes, 20, 31, 64, 100)
			}
			qOf := func(n int) int { return (2*n)/3 + 1 }
			for _, nOld := range sizes {
				for _, nCur := range sizes {
					for named := 0; named < 2; named++ {
						nn, other := []int{nOld, nCur}[named], []int{nOld, nCur}[1-named]
						ms := map[int]bool{qOf(nn) - 1: true, qOf(nn): true, qOf(other) - 1: true, qOf(other): true, nn: true}
						for m := 0; m <= nn; m++ {
							if !ms[m] {
								continue
							}
							a, s := vfExplorerSetsEval(w, nOld, nCur, named, m)
							a["src"] = "gen-explorerquorum"
							tr.Emit(2, "ExplorerVerify", a, s)
						}
					}
				}
			}
		case "redigest": // C04: two-step histories on one VAA value, every field, in place and on a struct copy
			bases := N / 30
			if bases < 2 {
				bases = 2
			}
			for i := 0; i < bases; i++ {
				base := vfRandVal(r, vfPick(r, 0, 1, 2), vfPick(r, 0, 1, 2, 33, 100, 1000, 1001))
				for _, field := range vfMutations {
					for _, cp := range []bool{false, true} {
						a, s := vfEvalRedigest(base, field, cp)
						a["src"] = "gen-redigest"
						tr.Emit(2, "Redigest", a, s)
					}
				}
			}
		case "quorum": // C07: beyond the wire range as well
			if vfQuorumFn == nil {
				t.Fatal("quorum generator needs a package that links CalculateQuorum")
			}
			for i := 0; i < N; i++ {
				n := i
				if i > 300 {
					n = r.Intn(100000)
				}
				q := -1
				s := map[string]interface{}{}
				if p := vfCatch(func() { q = vfQuorumFn(n) }); p != "" {
					s["panic"] = p
				}
				s["q"] = q
				tr.Emit(2, "Quorum", map[string]interface{}{"n": n, "src": "gen-quorum"}, s)
			}
		default:
			t.Fatalf("unknown generator %q", g)
		}
	}
	fmt.Printf("VERIF-FMT generators=%s lines=%d\n", gens, tr.n)
}

func vfMalleate(sig [65]byte) [65]byte {
	// s' = N - s, v' = v ^ 1
	var out [65]byte
	copy(out[:], sig[:])
	borrow := 0
	for i := 31; i >= 0; i-- {
		d := int(vfCurveN[i]) - int(sig[32+i]) - borrow
		if d < 0 {
			d += 256
			borrow = 1
		} else {
			borrow = 0
		}
		out[32+i] = byte(d)
	}
	out[64] = sig[64] ^ 1
	return out
}
