package processor

// Conformance harness for Explorer.tla, ingest part (C19): VAA classes (valid, quorum-1, wrong signer, signed by
// another set than the one named, old set, future set with the chain answering or down, duplicates after a
// success and after a full queue) through the REAL vaaGossipConsumer.Push with real secp256k1 keys, a real
// GuardianSets instance, the real deduplicator and a bounded queue.  Injected via -overlay; not part of /repo.
//
// Logged: Init, ChainGrow, PushCall{p, v:{id,setIdx,sigs:[{idx,signer}]}}, PushRet{p,out} with out = queued | dup |
// error | panic (derived from the returned error and the queue length, not from error texts), LookupCall/LookupRet
// (GetGuardianSet from this package), Drain{id}.  Ret lines carry s = {queue:[ids], marked:[ids], curIdx, curKeys}:
// the queue's contents, which message ids the deduplicator's cache holds, index and size of the current set.  (The list itself is unexported state of another
// package here; it is observed through GetGuardianSet results, and directly in the guardiansets harness.)

import (
	"context"
	"fmt"
	"os"
	"testing"
	"time"

	"github.com/alephium/wormhole-fork/explorer-backend/deduplicator"
	"github.com/alephium/wormhole-fork/explorer-backend/guardiansets"
	"github.com/alephium/wormhole-fork/node/pkg/common"
	"github.com/alephium/wormhole-fork/node/pkg/vaa"
	"github.com/eko/gocache/v3/cache"
	"github.com/eko/gocache/v3/store"
	eth_common "github.com/ethereum/go-ethereum/common"
	gocache "github.com/patrickmn/go-cache"
	"go.uber.org/zap"
)

type phxRun struct {
	sc    int
	trace *vhTrace
	keys  *vhKeys
	chain *exChain
	gs    *guardiansets.GuardianSets
	cons  *vaaGossipConsumer
	queue chan *Message
	cache cache.CacheInterface[bool]
	ids   map[string]string // MessageID -> abstract id
	seen  []string          // abstract ids pushed so far (for the marked projection)
	keyOf map[string]string // abstract id -> MessageID
}

// build makes the wire bytes of abstract VAA v = {id, setIdx, sigs:[{idx, signer}]}: the body is a function of the
// id (copies of one message share it), every signature is a real signature of the named key over the digest.
func (r *phxRun) build(v map[string]interface{}) ([]byte, *vhVAA) {
	id := vhStr(v, "id")
	h := vhExpand(fmt.Sprintf("body|%d|%s", r.sc, id), 64)
	w := &vhVAA{Version: 1, SetIndex: uint32(vhInt(v, "setIdx", 0)), Ts: 1700000000, Nonce: uint32(h[0]), EChain: 2, TChain: 255,
		Seq: uint64(h[1])<<8 | uint64(h[2]), CL: 1, Payload: h[8 : 9+int(h[3])%40]}
	copy(w.Emitter[:], h[32:64])
	dg := w.Digest()
	for _, s := range vhList(v, "sigs") {
		m := s.(map[string]interface{})
		var sg vhSig
		sg.Index = uint8(vhInt(m, "idx", 0))
		copy(sg.Sig[:], r.keys.Sign(vhStr(m, "signer"), dg))
		w.Sigs = append(w.Sigs, sg)
	}
	return w.Encode(), w
}

func (r *phxRun) state() map[string]interface{} {
	q := []interface{}{}
	// look at the queue without consuming it: drain and refill (nothing else touches it between calls)
	var held []*Message
	for {
		select {
		case m := <-r.queue:
			held = append(held, m)
			continue
		default:
		}
		break
	}
	for _, m := range held {
		q = append(q, r.ids[m.vaa.MessageID()])
		r.queue <- m
	}
	marked := []interface{}{}
	for _, id := range r.seen {
		if v, _ := r.cache.Get(context.Background(), r.keyOf[id]); v {
			marked = append(marked, id)
		}
	}
	st := map[string]interface{}{"queue": q, "marked": marked}
	func() {
		defer func() { recover() }()
		cur := r.gs.GetCurrentGuardianSet() // exported, no side effects; nothing runs concurrently here
		st["curIdx"] = cur.Index
		st["curKeys"] = len(cur.Keys)
	}()
	return st
}

func (r *phxRun) lookupRes(i int) (res map[string]interface{}) {
	defer func() {
		if pv := recover(); pv != nil {
			res = map[string]interface{}{"tag": "panic", "msg": fmt.Sprint(pv)}
		}
	}()
	ctx, cancel := context.WithTimeout(context.Background(), 5*time.Second)
	defer cancel()
	gs, err := r.gs.GetGuardianSet(ctx, i)
	if err != nil || gs == nil {
		return map[string]interface{}{"tag": "err", "msg": fmt.Sprint(err)}
	}
	return map[string]interface{}{"tag": "set", "set": exProjSet(r.keys, gs)}
}

func (r *phxRun) push(v map[string]interface{}) {
	r.pushAs("m", v, nil, nil)
}

// heldPush: a gossiped VAA naming a set the explorer does not know yet; the node holds the answer to its chain fetch
// back while another lookup (of a newer index) fetches and appends beyond the named set; then the node answers.
func (r *phxRun) heldPush(a map[string]interface{}) {
	j := vhInt(a, "advance", 0)
	r.chain.HoldNext(1)
	r.pushAs("h", vhMap(a, "v"), func(finished func() bool) {
		deadline := time.Now().Add(5 * time.Second)
		for r.chain.Held() == 0 && !finished() && time.Now().Before(deadline) {
			time.Sleep(50 * time.Microsecond)
		}
		r.trace.Emit(r.sc, "LookupCall", map[string]interface{}{"p": "m", "i": j}, nil)
		res := r.lookupRes(j)
		r.trace.Emit(r.sc, "LookupRet", map[string]interface{}{"p": "m", "i": j, "res": res}, nil)
	}, r.chain.Release)
}

// pushAs runs one Push as process p.  meanwhile (optional) runs while the call is in flight, release right after it.
func (r *phxRun) pushAs(p string, v map[string]interface{}, meanwhile func(finished func() bool), release func()) {
	b, _ := r.build(v)
	id := vhStr(v, "id")
	pv, perr := vaa.Unmarshal(b)
	if perr != nil {
		panic("harness built an undecodable VAA: " + perr.Error())
	}
	r.ids[pv.MessageID()] = id
	if _, ok := r.keyOf[id]; !ok {
		r.keyOf[id] = pv.MessageID()
		r.seen = append(r.seen, id)
	}
	r.trace.Emit(r.sc, "PushCall", map[string]interface{}{"p": p, "v": v}, nil)
	before := len(r.queue)
	var err error
	var pan interface{}
	call := func() {
		defer func() { pan = recover() }()
		ctx, cancel := context.WithTimeout(context.Background(), 5*time.Second)
		defer cancel()
		err = r.cons.Push(ctx, pv, b)
	}
	if meanwhile == nil {
		call()
	} else {
		done := make(chan struct{})
		go func() {
			call()
			close(done)
		}()
		meanwhile(func() bool {
			select {
			case <-done:
				return true
			default:
				return false
			}
		})
		release()
		<-done
	}
	out := "?"
	switch {
	case pan != nil:
		out = "panic"
	case err == nil && len(r.queue) == before+1:
		out = "queued"
	case err == nil:
		out = "dup"
	default:
		out = "error"
	}
	a := map[string]interface{}{"p": p, "out": out}
	if err != nil {
		a["err"] = err.Error()
	}
	if pan != nil {
		a["panic"] = fmt.Sprint(pan)
	}
	r.trace.Emit(r.sc, "PushRet", a, r.state())
}

func phxRunScenario(trace *vhTrace, keys *vhKeys, sc vhScenario) {
	init := sc.Bodies["init"]
	up := vhBool(init, "up")
	n0 := vhInt(init, "n0", 1)
	qcap := vhInt(init, "qcap", 1)
	chain := exNewChain(keys, vhList(init, "chain"), vhInt(init, "top", 0), up)
	defer chain.Close()
	ch := make(chan *common.GuardianSet, 64)
	stop := make(chan struct{})
	go func() {
		for {
			select {
			case <-ch:
			case <-stop:
				return
			}
		}
	}()
	defer close(stop)
	r := &phxRun{sc: sc.ID, trace: trace, keys: keys, chain: chain, ids: map[string]string{}, keyOf: map[string]string{}}
	trace.Emit(r.sc, "Reset", nil, nil)
	trace.Emit(r.sc, "Init", exChainLine(chain, n0, qcap, up), nil)
	initial := append([]*common.GuardianSet{}, chain.sets[:n0]...)
	var pv interface{}
	func() {
		defer func() { pv = recover() }()
		r.gs = guardiansets.NewGuardianSets(initial, chain.url, zap.NewNop(), time.Hour, eth_common.HexToAddress("0x0290FB167208Af455bB137780163b7B7a9a10C16"), ch)
		r.cache = cache.New[bool](store.NewGoCache(gocache.New(5*time.Minute, 10*time.Minute)))
		r.queue = make(chan *Message, qcap)
		r.cons = NewVAAGossipConsumer(r.gs, deduplicator.New(r.cache, zap.NewNop()), r.queue, zap.NewNop())
	}()
	if pv != nil {
		trace.Emit(r.sc, "Panic", map[string]interface{}{"call": "NewGuardianSets", "value": fmt.Sprint(pv)}, nil)
		return
	}
	for _, st := range sc.Steps {
		switch st.Ev {
		case "Grow":
			chain.Grow(func(top int) { trace.Emit(r.sc, "ChainGrow", map[string]interface{}{"top": top}, nil) })
		case "Push":
			// rpc = "fail": the node answers the set call of this Push's chain lookup with an error
			if vhStr(st.A, "rpc") == "fail" {
				chain.ArmFailure("getGuardianSet", 1)
			}
			r.push(vhMap(st.A, "v"))
			chain.ClearFailures()
		case "HeldPush":
			r.heldPush(st.A)
		case "Lookup":
			i := vhInt(st.A, "i", 0)
			trace.Emit(r.sc, "LookupCall", map[string]interface{}{"p": "m", "i": i}, nil)
			res := r.lookupRes(i)
			trace.Emit(r.sc, "LookupRet", map[string]interface{}{"p": "m", "i": i, "res": res}, r.state())
		case "Drain":
			select {
			case m := <-r.queue:
				trace.Emit(r.sc, "Drain", map[string]interface{}{"id": r.ids[m.vaa.MessageID()]}, r.state())
			default:
			}
		}
	}
}

func TestVerifExplorerPush(t *testing.T) {
	scp, trp := os.Getenv("VERIF_SCENARIOS"), os.Getenv("VERIF_TRACE")
	if scp == "" || trp == "" {
		t.Skip("VERIF_SCENARIOS / VERIF_TRACE not set")
	}
	scs, err := vhLoadScenarios(scp)
	if err != nil {
		t.Fatal(err)
	}
	tr, err := vhOpenTrace(trp)
	if err != nil {
		t.Fatal(err)
	}
	keys := vhNewKeys("explorer|" + os.Getenv("VERIF_SEED"))
	for _, sc := range scs {
		phxRunScenario(tr, keys, sc)
		tr.mu.Lock()
		tr.w.Flush()
		tr.mu.Unlock()
	}
	tr.Close()
	fmt.Printf("VERIF-REPLAYED %d scenarios\n", len(scs))
}
