package guardiansets

// Conformance harness for Explorer.tla, guardian-set part (C19): sequential scenarios of lookups and appends on
// the real GuardianSets, and a hammer of concurrent GetGuardianSet / GetCurrentGuardianSet calls against the append
// path, run under the race detector.  Injected via -overlay; not part of /repo.
//
// Logged (one harness mutex = the trace writer's, sequence numbers):
//   Init{chain, top, n0, qcap, up}     universe of sets, what exists on chain, initial list length
//   ChainGrow{top}                     governance created the next set
//   LookupCall{p,i} / LookupRet{p,i,res}      GetGuardianSet
//   CurrentCall{p} / CurrentRet{p,res}        GetCurrentGuardianSet
//   AppendCall{p,lo,hi} / AppendRet{p}        updateGuardianSets(the sets lo..hi)
//   FreeRet{kind,i,res}                results of the free-running phase of the hammer (no logging while it runs)
// Ret lines of sequential scenarios carry s = {cur, n, idxs, nkeys}: index and list read under the structure's own lock.

import (
	"context"
	"fmt"
	"math/rand"
	"os"
	"strconv"
	"sync"
	"sync/atomic"
	"testing"
	"time"

	"github.com/alephium/wormhole-fork/node/pkg/common"
	eth_common "github.com/ethereum/go-ethereum/common"
	"go.uber.org/zap"
	"go.uber.org/zap/zaptest/observer"
)

type ghRun struct {
	ch    chan *common.GuardianSet // guardianSetC; in updater scenarios nobody drains it, so len(ch) = values sent so far
	logs  *observer.ObservedLogs
	sc    int
	trace *vhTrace
	keys  *vhKeys
	chain *exChain
	gs    *GuardianSets
	stop  chan struct{}
}

func (r *ghRun) snapshot() map[string]interface{} {
	r.gs.lock.Lock()
	defer r.gs.lock.Unlock()
	idxs, nk := []interface{}{}, []interface{}{}
	for _, s := range r.gs.guardianSetLists {
		idxs = append(idxs, s.Index)
		nk = append(nk, len(s.Keys))
	}
	return map[string]interface{}{"cur": r.gs.currentGuardianSetIndex, "n": len(r.gs.guardianSetLists), "idxs": idxs, "nkeys": nk}
}

func (r *ghRun) res(gs *common.GuardianSet, err error, pv interface{}) map[string]interface{} {
	if pv != nil {
		return map[string]interface{}{"tag": "panic", "msg": fmt.Sprint(pv)}
	}
	if err != nil || gs == nil {
		m := map[string]interface{}{"tag": "err"}
		if err != nil {
			m["msg"] = err.Error()
		}
		return m
	}
	return map[string]interface{}{"tag": "set", "set": exProjSet(r.keys, gs)}
}

func (r *ghRun) lookup(i int) (res map[string]interface{}) {
	defer func() {
		if pv := recover(); pv != nil {
			res = r.res(nil, nil, pv)
		}
	}()
	ctx, cancel := context.WithTimeout(context.Background(), 5*time.Second)
	defer cancel()
	gs, err := r.gs.GetGuardianSet(ctx, i)
	return r.res(gs, err, nil)
}

func (r *ghRun) current() (res map[string]interface{}) {
	defer func() {
		if pv := recover(); pv != nil {
			res = r.res(nil, nil, pv)
		}
	}()
	return r.res(r.gs.GetCurrentGuardianSet(), nil, nil)
}

func (r *ghRun) appendSets(lo, hi int) (pv interface{}) {
	defer func() { pv = recover() }()
	var batch []*common.GuardianSet
	for i := lo; i <= hi && i < len(r.chain.sets); i++ {
		batch = append(batch, r.chain.sets[i])
	}
	r.gs.updateGuardianSets(batch)
	return nil
}

func (r *ghRun) hammer(a map[string]interface{}) {
	readers, ops, appends := vhInt(a, "readers", 4), vhInt(a, "ops", 100), vhInt(a, "appends", 8)
	free := vhBool(a, "free")
	mode := vhStr(a, "mode") // "lookup": GetGuardianSet only, "current": GetCurrentGuardianSet only, else both
	seed := int64(vhInt(a, "seed", 1))
	var wg sync.WaitGroup
	type rec struct {
		kind string
		i    int
		res  map[string]interface{}
	}
	bufs := make([][]rec, readers)
	last := r.chain.Top()
	start := make(chan struct{})
	wg.Add(1)
	go func() { // the appender (the periodic updater's role)
		defer wg.Done()
		<-start
		for k := 0; k < appends; k++ {
			ok := r.chain.Grow(func(top int) {
				if !free {
					r.trace.Emit(r.sc, "ChainGrow", map[string]interface{}{"top": top}, nil)
				}
			})
			if !ok {
				return
			}
			hi := r.chain.Top()
			lo := last + 1
			if !free {
				r.trace.Emit(r.sc, "AppendCall", map[string]interface{}{"p": "ha", "lo": lo, "hi": hi}, nil)
			}
			pv := r.appendSets(lo, hi)
			if !free {
				a := map[string]interface{}{"p": "ha"}
				if pv != nil {
					a["panic"] = fmt.Sprint(pv)
				}
				r.trace.Emit(r.sc, "AppendRet", a, nil)
			}
			last = hi
			time.Sleep(time.Duration(50+rand.Intn(200)) * time.Microsecond)
		}
	}()
	for g := 0; g < readers; g++ {
		g := g
		wg.Add(1)
		go func() {
			defer wg.Done()
			rnd := rand.New(rand.NewSource(seed*1000 + int64(g)))
			p := fmt.Sprintf("h%d", g+1)
			<-start
			for k := 0; k < ops; k++ {
				if mode == "current" || (mode != "lookup" && rnd.Intn(4) == 0) {
					if free {
						bufs[g] = append(bufs[g], rec{"current", -1, r.current()})
					} else {
						r.trace.Emit(r.sc, "CurrentCall", map[string]interface{}{"p": p}, nil)
						res := r.current()
						r.trace.Emit(r.sc, "CurrentRet", map[string]interface{}{"p": p, "res": res}, nil)
					}
					continue
				}
				top := r.chain.Top()
				i := top - rnd.Intn(3)
				if rnd.Intn(3) == 0 {
					i = rnd.Intn(top + 1)
				}
				if i < 0 {
					i = 0
				}
				if free {
					bufs[g] = append(bufs[g], rec{"lookup", i, r.lookup(i)})
				} else {
					r.trace.Emit(r.sc, "LookupCall", map[string]interface{}{"p": p, "i": i}, nil)
					res := r.lookup(i)
					r.trace.Emit(r.sc, "LookupRet", map[string]interface{}{"p": p, "i": i, "res": res}, nil)
				}
			}
		}()
	}
	close(start)
	wg.Wait()
	if free {
		for _, b := range bufs {
			for _, x := range b {
				r.trace.Emit(r.sc, "FreeRet", map[string]interface{}{"kind": x.kind, "i": x.i, "res": x.res, "top": r.chain.Top()}, nil)
			}
		}
	}
	if !free {
		// (the free-running phase changes the structure without logging, so it must be the last step of a scenario)
		r.trace.Emit(r.sc, "State", map[string]interface{}{}, r.snapshot())
	}
}

// appendHammer: rounds of concurrent appenders with identical and overlapping batches.  Each round governance creates
// one or two sets, then 2..maxK goroutines, released together, hand batches lo..hi (lo anywhere between 1 and the
// first unknown index) to updateGuardianSets or ask GetGuardianSet for the newest index (which fetches and appends).
// The Call lines are written before the goroutines are released (an earlier invocation time only widens the
// interval the specification may linearize in), the Ret lines by the goroutines; after each round the list is
// projected under its lock (State) and the newest and one older index are looked up; at the end every index is.
func (r *ghRun) appendHammer(a map[string]interface{}) {
	rounds, maxK := vhInt(a, "rounds", 40), vhInt(a, "maxk", 8)
	rnd := rand.New(rand.NewSource(int64(vhInt(a, "seed", 1))))
	type job struct {
		p      string
		lookup bool
		lo, hi int
	}
	for round := 0; round < rounds; round++ {
		prev := r.chain.Top()
		grown := 0
		for g := 0; g < 1+rnd.Intn(2); g++ {
			if r.chain.Grow(func(top int) { r.trace.Emit(r.sc, "ChainGrow", map[string]interface{}{"top": top}, nil) }) {
				grown++
			}
		}
		if grown == 0 {
			break
		}
		top := r.chain.Top()
		k := 2 + rnd.Intn(maxK-1)
		jobs := make([]job, k)
		for g := range jobs {
			j := job{p: fmt.Sprintf("u%d", g+1)}
			switch rnd.Intn(5) {
			case 0:
				j.lookup = true
			case 1:
				j.lo, j.hi = 1, top
			case 2:
				j.lo, j.hi = 1+rnd.Intn(prev+1), top
			case 3:
				j.lo, j.hi = prev+1, prev+1+rnd.Intn(top-prev)
			default:
				j.lo, j.hi = prev+1, top
			}
			jobs[g] = j
			if j.lookup {
				r.trace.Emit(r.sc, "LookupCall", map[string]interface{}{"p": j.p, "i": top}, nil)
			} else {
				r.trace.Emit(r.sc, "AppendCall", map[string]interface{}{"p": j.p, "lo": j.lo, "hi": j.hi}, nil)
			}
		}
		var ready, done sync.WaitGroup
		var gate int32
		for _, j := range jobs {
			j := j
			ready.Add(1)
			done.Add(1)
			go func() {
				defer done.Done()
				ready.Done()
				for atomic.LoadInt32(&gate) == 0 {
				}
				if j.lookup {
					res := r.lookup(top)
					r.trace.Emit(r.sc, "LookupRet", map[string]interface{}{"p": j.p, "i": top, "res": res}, nil)
					return
				}
				pv := r.appendSets(j.lo, j.hi)
				a := map[string]interface{}{"p": j.p}
				if pv != nil {
					a["panic"] = fmt.Sprint(pv)
				}
				r.trace.Emit(r.sc, "AppendRet", a, nil)
			}()
		}
		ready.Wait()
		atomic.StoreInt32(&gate, 1)
		done.Wait()
		r.trace.Emit(r.sc, "State", map[string]interface{}{}, r.snapshot())
		for _, i := range []int{top, rnd.Intn(top + 1)} {
			r.trace.Emit(r.sc, "LookupCall", map[string]interface{}{"p": "m", "i": i}, nil)
			res := r.lookup(i)
			r.trace.Emit(r.sc, "LookupRet", map[string]interface{}{"p": "m", "i": i, "res": res}, r.snapshot())
		}
	}
	for i := 0; i <= r.chain.Top(); i++ {
		r.trace.Emit(r.sc, "LookupCall", map[string]interface{}{"p": "m", "i": i}, nil)
		res := r.lookup(i)
		r.trace.Emit(r.sc, "LookupRet", map[string]interface{}{"p": "m", "i": i, "res": res}, r.snapshot())
	}
}

// tick lets one tick of the real updater loop fetch from the node (GetGuardianSetsFromChain(.., current+1), then
// updateGuardianSets, then the current set on guardianSetC) and waits for its end: a value on guardianSetC (the tick
// went through) or a logged error (the fetch failed).  fail = "index" | "set" makes the node fail the index call /
// the nth set call of the range.  A tick that went through is logged as the append of the sets 1..top (what the batch
// brings is the sets from the updater's stale-or-fresh current+1 up to the chain's index, and a batch that overlaps
// known sets has the effect of the one that starts at 1); a failed fetch must change nothing.
func (r *ghRun) tick(a map[string]interface{}) bool {
	switch vhStr(a, "fail") {
	case "index":
		r.chain.ArmFailure("getCurrentGuardianSetIndex", 1)
	case "set":
		r.chain.ArmFailure("getGuardianSet", vhInt(a, "nth", 1))
	}
	hi := r.chain.Top()
	sent0, errs0 := len(r.ch), r.logs.Len()
	r.chain.Permit()
	done := ghWaitUntil(func() bool { return len(r.ch) > sent0 || r.logs.Len() > errs0 })
	consumed := r.chain.ClearFailures()
	if !done {
		r.trace.Emit(r.sc, "TickTimeout", map[string]interface{}{"hi": hi}, nil)
		return false
	}
	if len(r.ch) > sent0 {
		r.trace.Emit(r.sc, "AppendCall", map[string]interface{}{"p": "t", "lo": 1, "hi": hi, "tick": true, "node_failures": consumed}, nil)
		r.trace.Emit(r.sc, "AppendRet", map[string]interface{}{"p": "t"}, r.snapshot())
	} else {
		r.trace.Emit(r.sc, "TickFailed", map[string]interface{}{"node_failures": consumed}, r.snapshot())
	}
	return true
}

// waitUntil polls pred for at most 5 s.
func ghWaitUntil(pred func() bool) bool {
	deadline := time.Now().Add(5 * time.Second)
	for !pred() {
		if time.Now().After(deadline) {
			return false
		}
		time.Sleep(50 * time.Microsecond)
	}
	return true
}

// heldLookup: a lookup of a future index i whose chain fetch is held back by the node while the updater appends the
// sets lo..hi (hi beyond i); then the node answers and the lookup returns.  Scripted, no timing luck: the append
// starts only when the node reports the waiting request.
func (r *ghRun) heldLookup(a map[string]interface{}) {
	i, lo, hi := vhInt(a, "i", 0), vhInt(a, "lo", 0), vhInt(a, "hi", 0)
	r.chain.HoldNext(1)
	r.trace.Emit(r.sc, "LookupCall", map[string]interface{}{"p": "h", "i": i}, nil)
	var res map[string]interface{}
	done := make(chan struct{})
	go func() {
		res = r.lookup(i)
		close(done)
	}()
	finished := func() bool {
		select {
		case <-done:
			return true
		default:
			return false
		}
	}
	ghWaitUntil(func() bool { return r.chain.Held() > 0 || finished() })
	r.trace.Emit(r.sc, "AppendCall", map[string]interface{}{"p": "m", "lo": lo, "hi": hi}, nil)
	pv := r.appendSets(lo, hi)
	ar := map[string]interface{}{"p": "m"}
	if pv != nil {
		ar["panic"] = fmt.Sprint(pv)
	}
	r.trace.Emit(r.sc, "AppendRet", ar, r.snapshot())
	r.chain.Release()
	<-done
	r.trace.Emit(r.sc, "LookupRet", map[string]interface{}{"p": "h", "i": i, "res": res}, r.snapshot())
}

func ghRunScenario(trace *vhTrace, keys *vhKeys, sc vhScenario) {
	init := sc.Bodies["init"]
	up := vhBool(init, "up")
	n0 := vhInt(init, "n0", 1)
	chain := exNewChain(keys, vhList(init, "chain"), vhInt(init, "top", 0), up)
	defer chain.Close()
	updater := vhBool(init, "updater")
	ch := make(chan *common.GuardianSet, 4096)
	stop := make(chan struct{})
	r := &ghRun{sc: sc.ID, trace: trace, keys: keys, chain: chain, ch: ch}
	if !updater {
		go func() {
			for {
				select {
				case <-ch:
				case <-stop:
					return
				}
			}
		}()
	}
	defer close(stop)
	core, logs := observer.New(zap.ErrorLevel)
	r.logs = logs
	addr := eth_common.HexToAddress("0x0290FB167208Af455bB137780163b7B7a9a10C16")
	trace.Emit(r.sc, "Reset", nil, nil)
	initial := append([]*common.GuardianSet{}, chain.sets[:n0]...)
	if vhBool(init, "startup") {
		// main.go's start: the initial list is whatever GetGuardianSetsFromChain(.., 0) returns -- the specification
		// says: the sets 0..top of the chain
		n0 = chain.Top() + 1
		var err error
		var pv interface{}
		func() {
			defer func() { pv = recover() }()
			ctx, cancel := context.WithTimeout(context.Background(), 5*time.Second)
			defer cancel()
			initial, err = GetGuardianSetsFromChain(ctx, chain.url, addr, 0)
		}()
		if pv != nil {
			trace.Emit(r.sc, "Init", exChainLine(chain, n0, 1, up), nil)
			trace.Emit(r.sc, "Panic", map[string]interface{}{"call": "GetGuardianSetsFromChain", "value": fmt.Sprint(pv)}, nil)
			return
		}
		if err != nil || len(initial) == 0 {
			trace.Emit(r.sc, "Init", exChainLine(chain, n0, 1, up), nil)
			trace.Emit(r.sc, "StartupFailed", map[string]interface{}{"err": fmt.Sprint(err), "n": len(initial)}, nil)
			return
		}
	}
	trace.Emit(r.sc, "Init", exChainLine(chain, n0, 1, up), nil)
	tickEvery := time.Hour
	if updater {
		tickEvery = time.Millisecond
	}
	var pv interface{}
	func() {
		defer func() { pv = recover() }()
		r.gs = NewGuardianSets(initial, chain.url, zap.New(core), tickEvery, addr, ch)
	}()
	if pv != nil {
		trace.Emit(r.sc, "Panic", map[string]interface{}{"call": "NewGuardianSets", "value": fmt.Sprint(pv)}, nil)
		return
	}
	trace.Emit(r.sc, "State", map[string]interface{}{}, r.snapshot())
	if updater {
		// the REAL periodic updater (updateGuardianSet loop, 1 ms tick); its fetches wait at the node for a permit
		chain.Gate(true)
		ctx, cancel := context.WithCancel(context.Background())
		defer cancel()
		defer chain.Gate(false)
		r.gs.UpdateGuardianSet(ctx)
	}
	for _, st := range sc.Steps {
		switch st.Ev {
		case "Grow":
			chain.Grow(func(top int) { trace.Emit(r.sc, "ChainGrow", map[string]interface{}{"top": top}, nil) })
		case "Lookup":
			i := vhInt(st.A, "i", 0)
			trace.Emit(r.sc, "LookupCall", map[string]interface{}{"p": "m", "i": i}, nil)
			res := r.lookup(i)
			trace.Emit(r.sc, "LookupRet", map[string]interface{}{"p": "m", "i": i, "res": res}, r.snapshot())
		case "Current":
			trace.Emit(r.sc, "CurrentCall", map[string]interface{}{"p": "m"}, nil)
			res := r.current()
			trace.Emit(r.sc, "CurrentRet", map[string]interface{}{"p": "m", "res": res}, r.snapshot())
		case "Append":
			lo, hi := vhInt(st.A, "lo", 0), vhInt(st.A, "hi", -1)
			trace.Emit(r.sc, "AppendCall", map[string]interface{}{"p": "m", "lo": lo, "hi": hi}, nil)
			pv := r.appendSets(lo, hi)
			a := map[string]interface{}{"p": "m"}
			if pv != nil {
				a["panic"] = fmt.Sprint(pv)
			}
			trace.Emit(r.sc, "AppendRet", a, r.snapshot())
		case "HeldLookup":
			r.heldLookup(st.A)
		case "Tick":
			if !r.tick(st.A) {
				return
			}
		case "Hammer":
			r.hammer(st.A)
		case "AppendHammer":
			r.appendHammer(st.A)
		}
	}
}

func TestVerifExplorerSets(t *testing.T) {
	scp, trp := os.Getenv("VERIF_SCENARIOS"), os.Getenv("VERIF_TRACE")
	if scp == "" || trp == "" {
		t.Skip("VERIF_SCENARIOS / VERIF_TRACE not set")
	}
	scs, err := vhLoadScenarios(scp)
	if err != nil {
		t.Fatal(err)
	}
	tr, err := vhOpenTrace(trp)
	if err != nil {
		t.Fatal(err)
	}
	keys := vhNewKeys("explorer|" + os.Getenv("VERIF_SEED"))
	for _, sc := range scs {
		ghRunScenario(tr, keys, sc)
		// a crash in a goroutine of the code under test (the updater loop) kills the process: keep what is complete
		tr.mu.Lock()
		tr.w.Flush()
		tr.mu.Unlock()
	}
	tr.Close()
	fmt.Printf("VERIF-REPLAYED %d scenarios %s\n", len(scs), strconv.Itoa(len(scs)))
}
