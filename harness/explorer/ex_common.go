package PKG

// Shared part of the explorer harnesses (C19), injected into packages guardiansets and processor of module
// explorer-backend together with harness/common/vh.go.  Not part of /repo.
//
// exChain is the environment: a JSON-RPC endpoint that answers the two view calls the explorer makes on the
// core contract (getCurrentGuardianSetIndex, getGuardianSet) the way the contract does -- in particular
// getGuardianSet(i) for an index that does not exist returns the zero struct (no keys), not an error
// (ethereum/contracts/Getters.sol: `return _state.guardianSets[index]`).  With up = false the endpoint is a closed
// local port, so every fetch fails at once.

import (
	"encoding/json"
	"io"
	"net/http"
	"net/http/httptest"
	"strings"
	"sync"

	nodecommon "github.com/alephium/wormhole-fork/node/pkg/common"
	nodeabi "github.com/alephium/wormhole-fork/node/pkg/ethereum/abi"
	ethabi "github.com/ethereum/go-ethereum/accounts/abi"
	ethcommon "github.com/ethereum/go-ethereum/common"
	"github.com/ethereum/go-ethereum/common/hexutil"
)

type exChain struct {
	mu       sync.Mutex
	cond     *sync.Cond
	holdNext int // the next holdNext getGuardianSet requests are not answered until Release
	held     int // requests waiting right now
	released bool
	gated    bool // getCurrentGuardianSetIndex (made only by the periodic updater) waits for a permit
	permits  int
	failNth  map[string]int            // method -> the n-th next call of it fails (JSON-RPC error)
	failed   int                       // failures delivered since ArmFailure
	sets     []*nodecommon.GuardianSet // universe: sets[i].Index == i
	names    [][]string
	top      int
	calls    int
	abi      ethabi.ABI
	srv      *httptest.Server
	url      string
}

func exNewChain(keys *vhKeys, universe []interface{}, top int, up bool) *exChain {
	c := &exChain{top: top}
	c.cond = sync.NewCond(&c.mu)
	for i, ks := range universe {
		gs := &nodecommon.GuardianSet{Index: uint32(i)}
		var nm []string
		for _, k := range ks.([]interface{}) {
			gs.Keys = append(gs.Keys, keys.Addr(k.(string)))
			nm = append(nm, k.(string))
		}
		c.sets = append(c.sets, gs)
		c.names = append(c.names, nm)
	}
	parsed, err := ethabi.JSON(strings.NewReader(nodeabi.AbiABI))
	if err != nil {
		panic(err)
	}
	c.abi = parsed
	if up {
		c.srv = httptest.NewServer(c)
		c.url = c.srv.URL
	} else {
		c.url = "http://127.0.0.1:1"
	}
	return c
}

func (c *exChain) Close() {
	c.Gate(false)
	c.Release()
	if c.srv != nil {
		c.srv.Close()
	}
}

// Gate(true) makes every getCurrentGuardianSetIndex call wait for a Permit: the real updater loop runs with a short
// tick, and the harness lets exactly one tick's fetch through at a time.
func (c *exChain) Gate(on bool) {
	c.mu.Lock()
	c.gated = on
	c.cond.Broadcast()
	c.mu.Unlock()
}

func (c *exChain) Permit() {
	c.mu.Lock()
	c.permits++
	c.cond.Broadcast()
	c.mu.Unlock()
}

// ArmFailure: the nth next call of method answers with a JSON-RPC error (a node-side failure).  ClearFailures
// disarms and tells how many failures were delivered.
func (c *exChain) ArmFailure(method string, nth int) {
	c.mu.Lock()
	c.failNth = map[string]int{method: nth}
	c.failed = 0
	c.mu.Unlock()
}

func (c *exChain) ClearFailures() int {
	c.mu.Lock()
	defer c.mu.Unlock()
	c.failNth = nil
	return c.failed
}

// HoldNext makes the node keep the answers to the next n getGuardianSet calls back until Release (a slow RPC round
// trip); Held tells how many calls are waiting.
func (c *exChain) HoldNext(n int) {
	c.mu.Lock()
	c.holdNext, c.released = n, false
	c.mu.Unlock()
}

func (c *exChain) Held() int {
	c.mu.Lock()
	defer c.mu.Unlock()
	return c.held
}

func (c *exChain) Release() {
	c.mu.Lock()
	c.holdNext, c.released = 0, true
	c.cond.Broadcast()
	c.mu.Unlock()
}

func (c *exChain) Top() int {
	c.mu.Lock()
	defer c.mu.Unlock()
	return c.top
}

// Grow makes the next set of the universe exist on chain; f runs while the change is being made (used to log it).
func (c *exChain) Grow(f func(top int)) bool {
	c.mu.Lock()
	defer c.mu.Unlock()
	if c.top+1 >= len(c.sets) {
		return false
	}
	if f != nil {
		f(c.top + 1)
	}
	c.top++
	return true
}

func (c *exChain) ServeHTTP(w http.ResponseWriter, r *http.Request) {
	body, _ := io.ReadAll(r.Body)
	var req struct {
		ID     json.RawMessage   `json:"id"`
		Method string            `json:"method"`
		Params []json.RawMessage `json:"params"`
	}
	reply := func(result interface{}, errMsg string) {
		out := map[string]interface{}{"jsonrpc": "2.0", "id": req.ID}
		if errMsg != "" {
			out["error"] = map[string]interface{}{"code": -32000, "message": errMsg}
		} else {
			out["result"] = result
		}
		w.Header().Set("Content-Type", "application/json")
		json.NewEncoder(w).Encode(out)
	}
	if err := json.Unmarshal(body, &req); err != nil {
		reply(nil, "bad request")
		return
	}
	switch req.Method {
	case "eth_chainId":
		reply("0x1", "")
	case "eth_call":
		var arg struct {
			Data  string `json:"data"`
			Input string `json:"input"`
		}
		if len(req.Params) == 0 || json.Unmarshal(req.Params[0], &arg) != nil {
			reply(nil, "bad params")
			return
		}
		hx := arg.Input
		if hx == "" {
			hx = arg.Data
		}
		data, err := hexutil.Decode(hx)
		if err != nil || len(data) < 4 {
			reply(nil, "bad call data")
			return
		}
		m, err := c.abi.MethodById(data[:4])
		if err != nil {
			reply(nil, "unknown method")
			return
		}
		c.mu.Lock()
		c.calls++
		if m.Name == "getCurrentGuardianSetIndex" {
			for c.gated && c.permits == 0 {
				c.cond.Wait()
			}
			if c.gated {
				c.permits--
			}
		}
		if n, ok := c.failNth[m.Name]; ok {
			if n <= 1 {
				delete(c.failNth, m.Name)
				c.failed++
				c.mu.Unlock()
				reply(nil, "the node failed to answer "+m.Name)
				return
			}
			c.failNth[m.Name] = n - 1
		}
		if m.Name == "getGuardianSet" && c.holdNext > 0 {
			c.holdNext--
			c.held++
			for !c.released {
				c.cond.Wait()
			}
			c.held--
		}
		top := c.top
		c.mu.Unlock()
		switch m.Name {
		case "getCurrentGuardianSetIndex":
			out, _ := m.Outputs.Pack(uint32(top))
			reply(hexutil.Encode(out), "")
		case "getGuardianSet":
			args, err := m.Inputs.Unpack(data[4:])
			if err != nil {
				reply(nil, "bad argument")
				return
			}
			idx := int(args[0].(uint32))
			res := nodeabi.StructsGuardianSet{Keys: []ethcommon.Address{}}
			if idx <= top {
				res.Keys = c.sets[idx].Keys
			}
			out, err := m.Outputs.Pack(res)
			if err != nil {
				reply(nil, "pack: "+err.Error())
				return
			}
			reply(hexutil.Encode(out), "")
		default:
			reply(nil, "execution reverted")
		}
	default:
		reply(nil, "method not supported by the fake chain: "+req.Method)
	}
}

// exProjSet is the logged form of a guardian set: its own Index field and the names of its keys.
func exProjSet(keys *vhKeys, gs *nodecommon.GuardianSet) map[string]interface{} {
	ks := []interface{}{}
	for _, k := range gs.Keys {
		ks = append(ks, keys.Name(k))
	}
	return map[string]interface{}{"idx": gs.Index, "keys": ks}
}

func exChainLine(c *exChain, n0 int, qcap int, up bool) map[string]interface{} {
	ch := []interface{}{}
	for i, nm := range c.names {
		ks := []interface{}{}
		for _, k := range nm {
			ks = append(ks, k)
		}
		ch = append(ch, map[string]interface{}{"idx": i, "keys": ks})
	}
	return map[string]interface{}{"chain": ch, "top": c.top, "n0": n0, "qcap": qcap, "up": up}
}
