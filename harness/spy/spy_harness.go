package spy

// Conformance harness for Spy.tla (C20).  Injected into package spy via -overlay; not part of /repo.
//
// It drives the REAL spyServer (newSpyServer, SubscribeSignedVAA, Publish) with fake client streams whose
// Send blocks / fails on command and whose context the harness cancels, replays scripted scenarios (TLC
// behaviours of Gen_Spy and seeded generator output) and records one NDJSON line per event that is visible
// at the service boundary.  All lines of a scenario are written under one harness mutex (r.mu), so the order
// of the lines is a real-time order of the events; sequence numbers, never timestamps.
//
//   SubscribeCalled(s, f, valid, conn, peer)  the handler goroutine is about to be started; valid = no filter entry of
//                           an unknown kind; conn/peer = the client connection (peer address in the stream context)
//   Subscribed(s)           the handler reached its select loop (first Context() call seen)
//   PublishCalled(v)        about to call Publish
//   PublishReturned(v,err)  Publish returned
//   Received(s, v)          the client's stream accepted a message (Send returned nil)
//   SendBlocked(s, v)       Send was invoked while the client is stalled (it does not return)
//   SendFailed(s, v)        Send returned an error (broken connection / cancelled context)
//   Stall/Resume/Fail/Cancel(s)   faults injected by the harness
//   Removed(s)              SubscribeSignedVAA returned (its deferred removal has run)
//   FloodInfo(cap, n)       a flood of n = cap(sub.ch)+extra Publish calls follows (cap read from the code under test)
//   End(nsubs)              the scenario is over and everything owed has been waited for; nsubs = len(spyServer.subs)
//   Panic(call, value, fn)  a call into the code under test panicked (recovered by the harness; the real process would die)
//   Timeout(op, ...)        bounded liveness: an operation that the specification says must complete did not
//                           complete within the deadline; the goroutine dump of the scenario is attached
//
// Bounded liveness (L): Publish, registration, removal after a cancel, and delivery to every subscriber that
// is reading must complete within shDeadline (5 s; the code needs microseconds).  "Everything delivered" is
// established with sentinel VAAs published through the same public API: every subscription also carries a
// filter for the reserved sentinel emitter, per-subscriber delivery is FIFO, hence a subscriber that has seen
// the sentinel has seen everything that was queued for it before.

import (
	"context"
	"encoding/hex"
	"errors"
	"fmt"
	"net"
	"os"
	"regexp"
	"runtime"
	"runtime/debug"
	"sort"
	"strconv"
	"strings"
	"sync"
	"testing"
	"time"

	publicrpcv1 "github.com/alephium/wormhole-fork/node/pkg/proto/publicrpc/v1"
	spyv1 "github.com/alephium/wormhole-fork/node/pkg/proto/spy/v1"
	"go.uber.org/zap"
	"google.golang.org/grpc"
	"google.golang.org/grpc/peer"
)

var shDeadline = 5 * time.Second

const shSyncChain = 9999
const shSyncAddr = "sync"

type shWorld struct {
	trace *vhTrace
	keys  *vhKeys
}

type shStream struct {
	grpc.ServerStream // nil: only Context and Send are used by the code under test
	r                 *shRun
	name              string
	ctx               context.Context
	cancel            context.CancelFunc
	mode              string // ok | stall | fail
	cancelled         bool
	entered           bool
	returned          bool
	blockedLogged     bool
	clean             bool // never stalled since it last proved to be caught up
	got               map[string]bool
	gid               int64
}

type shPub struct {
	done     bool
	panicked bool
	gid      int64
}

type shRun struct {
	w        *shWorld
	sc       int
	srv      *spyServer
	mu       sync.Mutex
	cond     *sync.Cond
	closed   bool
	release  bool
	subs     map[string]*shStream
	order    []string
	names    map[string]string // hex(vaa bytes) -> abstract id
	seq      uint64
	nsync    int
	pubGids  []int64
	timedOut bool
	panicked bool
	probe    bool
}

func shGid() int64 {
	var b [64]byte
	n := runtime.Stack(b[:], false)
	f := strings.Fields(string(b[:n]))
	if len(f) >= 2 {
		if v, err := strconv.ParseInt(f[1], 10, 64); err == nil {
			return v
		}
	}
	return -1
}

// ---- the fake client stream

func (st *shStream) Context() context.Context {
	st.r.mu.Lock()
	st.entered = true
	st.r.mu.Unlock()
	return st.ctx
}

func (st *shStream) Send(resp *spyv1.SubscribeSignedVAAResponse) error {
	r := st.r
	r.mu.Lock()
	defer r.mu.Unlock()
	id := r.vaaName(resp.VaaBytes)
	for st.mode == "stall" && !st.cancelled && !r.release {
		if !st.blockedLogged {
			st.blockedLogged = true
			r.emit("SendBlocked", map[string]interface{}{"s": st.name, "v": id})
		}
		r.cond.Wait()
	}
	st.blockedLogged = false
	if r.release {
		return nil
	}
	if st.mode == "fail" || st.cancelled {
		r.emit("SendFailed", map[string]interface{}{"s": st.name, "v": id})
		return errors.New("rpc error: code = Unavailable desc = transport is closing")
	}
	st.got[id] = true
	r.emit("Received", map[string]interface{}{"s": st.name, "v": id})
	return nil
}

// ---- per-scenario machinery

// emit requires r.mu.
func (r *shRun) emit(ev string, a map[string]interface{}) {
	if r.closed {
		return
	}
	r.w.trace.Emit(r.sc, ev, a, nil)
}

func (r *shRun) vaaName(b []byte) string {
	if n, ok := r.names[hex.EncodeToString(b)]; ok {
		return n
	}
	return "?unknown-bytes"
}

func shEmitterBytes(c int, a string) [32]byte {
	var e [32]byte
	if a == "zero" {
		return e // the all-zero address (with chain 0: the zero value of a filter entry)
	}
	copy(e[:], vhExpand(fmt.Sprintf("emitter|%s", a), 32))
	return e
}

// vaaBytes builds a real signed VAA encoding for abstract (id, chain, address name).  Called by the scenario's
// driver goroutine only (r.seq is its own); the name table is shared with the stream goroutines, hence r.mu.
//
// bad != "" makes bytes that the VAA decoder refuses: "empty-payload" (a guardian-signed message without payload),
// "truncated" (cut inside the body), "short" (cut inside the header), "version" (unknown version byte).
func (r *shRun) vaaBytes(id string, c int, a string, bad string) []byte {
	r.seq++
	v := &vhVAA{Version: 1, SetIndex: 0, Ts: 1700000000 + uint32(r.seq), Nonce: uint32(r.sc), EChain: uint16(c),
		TChain: 0, Emitter: shEmitterBytes(c, a), Seq: r.seq, CL: 1,
		Payload: vhExpand(fmt.Sprintf("payload|%d|%s", r.sc, id), 1+int(r.seq%90))}
	if bad == "empty-payload" {
		v.Payload = nil
	}
	sig := r.w.keys.Sign("g1", v.Digest())
	var s vhSig
	s.Index = 0
	copy(s.Sig[:], sig)
	v.Sigs = []vhSig{s}
	b := v.Encode()
	switch bad {
	case "truncated":
		b = b[:6+66+30]
	case "short":
		b = b[:20]
	case "version":
		b[0] = 7
	}
	r.mu.Lock()
	r.names[hex.EncodeToString(b)] = id
	r.mu.Unlock()
	return b
}

func (r *shRun) waitFor(pred func() bool, d time.Duration) bool {
	deadline := time.Now().Add(d)
	sleep := 20 * time.Microsecond
	for {
		r.mu.Lock()
		ok := pred()
		r.mu.Unlock()
		if ok {
			return true
		}
		if time.Now().After(deadline) {
			return false
		}
		time.Sleep(sleep)
		if sleep < time.Millisecond {
			sleep *= 2
		}
	}
}

var shHdr = regexp.MustCompile(`^goroutine (\d+) \[([^\]]*)\]:`)

// shDump returns the stacks of this scenario's goroutines (publishers and stream handlers) and, per goroutine,
// its wait state and the innermost frame inside the code under test.
func (r *shRun) dump() (map[string]interface{}, string) {
	roles := map[int64]string{}
	for _, n := range r.order {
		if st := r.subs[n]; st.gid > 0 {
			roles[st.gid] = "handler:" + n
		}
	}
	for i, g := range r.pubGids {
		roles[g] = fmt.Sprintf("publish#%d", i+1)
	}
	buf := make([]byte, 1<<24)
	n := runtime.Stack(buf, true)
	blocks := strings.Split(string(buf[:n]), "\n\n")
	var text []string
	info := map[string]interface{}{}
	for _, b := range blocks {
		lines := strings.Split(strings.TrimSpace(b), "\n")
		m := shHdr.FindStringSubmatch(lines[0])
		if m == nil {
			continue
		}
		g, _ := strconv.ParseInt(m[1], 10, 64)
		role, ok := roles[g]
		if !ok {
			continue
		}
		state := strings.TrimSpace(strings.Split(m[2], ",")[0])
		fn := ""
		for _, ln := range lines[1:] {
			if strings.HasPrefix(ln, "\t") {
				continue
			}
			if i := strings.Index(ln, "cmd/spy."); i >= 0 {
				name := ln[i+len("cmd/spy."):]
				if j := strings.LastIndex(name, "("); j > 0 {
					name = name[:j]
				}
				if strings.HasPrefix(name, "(*shStream)") || strings.HasPrefix(name, "(*shRun)") || strings.HasPrefix(name, "sh") ||
					strings.HasPrefix(name, "TestVerif") {
					continue
				}
				fn = name
				break
			}
		}
		info[role] = map[string]interface{}{"state": state, "fn": fn}
		if len(lines) > 14 {
			lines = lines[:14]
		}
		text = append(text, "["+role+"] "+strings.Join(lines, "\n"))
	}
	sort.Strings(text)
	return info, strings.Join(text, "\n\n")
}

// timeout records a reproduced stall.  Requires r.mu NOT held.
func (r *shRun) timeout(op string, a map[string]interface{}, role string) {
	r.mu.Lock()
	defer r.mu.Unlock()
	info, text := r.dump()
	a["op"] = op
	a["deadline_ms"] = int(shDeadline / time.Millisecond)
	a["goroutines"] = info
	if w, ok := info[role]; ok {
		a["where"] = w
	} else {
		a["where"] = map[string]interface{}{"state": "?", "fn": "?"}
	}
	a["stacks"] = text
	r.emit("Timeout", a)
	r.timedOut = true
}

// recovered is deferred around every call into the code under test: a panic there (in the real process it would kill
// the spy) is logged as a Panic line -- the call, the panic value and the innermost frame inside the package -- which no
// action of the specification matches.  mark runs under r.mu so that whoever waits for the call stops waiting.
func (r *shRun) recovered(call string, a map[string]interface{}, mark func()) {
	pv := recover()
	if pv == nil {
		return
	}
	stack := string(debug.Stack())
	fn := ""
	seenPanic := false
	for _, ln := range strings.Split(stack, "\n") {
		if strings.HasPrefix(ln, "panic(") {
			seenPanic = true
			continue
		}
		if !seenPanic || strings.HasPrefix(ln, "\t") {
			continue
		}
		if i := strings.Index(ln, "cmd/spy."); i >= 0 {
			name := ln[i+len("cmd/spy."):]
			if j := strings.LastIndex(name, "("); j > 0 {
				name = name[:j]
			}
			if strings.HasPrefix(name, "(*shStream)") || strings.HasPrefix(name, "(*shRun)") || strings.HasPrefix(name, "sh") {
				continue
			}
			fn = name
			break
		}
	}
	r.mu.Lock()
	defer r.mu.Unlock()
	a["call"] = call
	a["value"] = fmt.Sprint(pv)
	a["fn"] = fn
	if len(stack) > 3000 {
		stack = stack[:3000]
	}
	a["stack"] = stack
	r.emit("Panic", a)
	r.panicked = true
	mark()
	r.cond.Broadcast()
}

func (r *shRun) subscribe(name string, filters []interface{}, dup bool) bool {
	return r.subscribeReq(name, filters, dup, "", 0, "")
}

// subscribeReq: conn names the client connection the stream comes over (streams of one connection share the peer address
// in their context, as with a real gRPC transport; "" = a connection of its own); unknown = how many filter entries of a
// kind this server version does not know (a FilterEntry whose oneof is not set) the request carries, at = where.
func (r *shRun) subscribeReq(name string, filters []interface{}, dup bool, conn string, unknown int, at string) bool {
	if conn == "" {
		conn = "own-" + name
	}
	h := vhExpand(fmt.Sprintf("conn|%d|%s", r.sc, conn), 6)
	addr := &net.TCPAddr{IP: net.IPv4(10, h[0], h[1], 1+h[2]%250), Port: 20000 + int(h[3])<<4 + int(h[4])%16}
	ctx, cancel := context.WithCancel(peer.NewContext(context.Background(), &peer.Peer{Addr: addr}))
	st := &shStream{r: r, name: name, ctx: ctx, cancel: cancel, mode: "ok", clean: true, got: map[string]bool{}}
	req := &spyv1.SubscribeSignedVAARequest{}
	logged := []interface{}{}
	add := func(c int, a string) {
		e := shEmitterBytes(c, a)
		req.Filters = append(req.Filters, &spyv1.FilterEntry{Filter: &spyv1.FilterEntry_EmitterFilter{
			EmitterFilter: &spyv1.EmitterFilter{ChainId: publicrpcv1.ChainID(c), EmitterAddress: hex.EncodeToString(e[:])}}})
	}
	if at != "end" {
		for i := 0; i < unknown; i++ {
			req.Filters = append(req.Filters, &spyv1.FilterEntry{})
		}
	}
	for _, f := range filters {
		m := f.(map[string]interface{})
		add(vhInt(m, "c", 0), vhStr(m, "a"))
		logged = append(logged, map[string]interface{}{"c": vhInt(m, "c", 0), "a": vhStr(m, "a")})
	}
	if at == "end" {
		for i := 0; i < unknown; i++ {
			req.Filters = append(req.Filters, &spyv1.FilterEntry{})
		}
	}
	if dup && len(filters) > 0 {
		m := filters[0].(map[string]interface{})
		add(vhInt(m, "c", 0), vhStr(m, "a"))
	}
	if len(filters) > 0 {
		add(shSyncChain, shSyncAddr)
		logged = append(logged, map[string]interface{}{"c": shSyncChain, "a": shSyncAddr})
	}
	r.mu.Lock()
	r.subs[name] = st
	r.order = append(r.order, name)
	r.emit("SubscribeCalled", map[string]interface{}{"s": name, "f": logged, "dup": dup && len(filters) > 0, "valid": unknown == 0,
		"unknown": unknown, "conn": conn, "peer": addr.String()})
	r.mu.Unlock()
	go func() {
		g := shGid()
		r.mu.Lock()
		st.gid = g
		r.mu.Unlock()
		defer r.recovered("SubscribeSignedVAA", map[string]interface{}{"s": name}, func() { st.returned = true })
		err := r.srv.SubscribeSignedVAA(req, st)
		r.mu.Lock()
		st.returned = true
		e := ""
		if err != nil {
			e = err.Error()
		}
		r.emit("Removed", map[string]interface{}{"s": name, "err": e})
		r.mu.Unlock()
	}()
	if !r.waitFor(func() bool { return st.entered || st.returned }, shDeadline) {
		r.timeout("Subscribe", map[string]interface{}{"s": name}, "handler:"+name)
		return false
	}
	r.mu.Lock()
	defer r.mu.Unlock()
	if r.panicked {
		return false
	}
	if st.returned && !st.entered {
		return true // the request was refused: the handler returned (Removed is logged) without entering its loop
	}
	r.emit("Subscribed", map[string]interface{}{"s": name})
	return true
}

func (r *shRun) publish(id string, c int, a string) bool {
	return r.publishBytes(id, c, a, "")
}

func (r *shRun) publishBytes(id string, c int, a string, bad string) bool {
	b := r.vaaBytes(id, c, a, bad)
	p := &shPub{}
	r.mu.Lock()
	r.emit("PublishCalled", map[string]interface{}{"v": map[string]interface{}{"id": id, "em": map[string]interface{}{"c": c, "a": a},
		"ok": bad == "", "bad": bad}})
	r.mu.Unlock()
	go func() {
		g := shGid()
		r.mu.Lock()
		p.gid = g
		r.pubGids = append(r.pubGids, g)
		r.mu.Unlock()
		defer r.recovered("Publish", map[string]interface{}{"v": id}, func() { p.panicked = true })
		err := r.srv.Publish(b)
		r.mu.Lock()
		p.done = true
		r.emit("PublishReturned", map[string]interface{}{"v": id, "err": err != nil})
		r.mu.Unlock()
	}()
	if !r.waitFor(func() bool { return p.done || p.panicked }, shDeadline) {
		r.mu.Lock()
		role := fmt.Sprintf("publish#%d", len(r.pubGids))
		r.mu.Unlock()
		r.timeout("Publish", map[string]interface{}{"v": id}, role)
		return false
	}
	r.mu.Lock()
	defer r.mu.Unlock()
	return !p.panicked
}

func (r *shRun) fault(ev, name string) {
	r.mu.Lock()
	defer r.mu.Unlock()
	st, ok := r.subs[name]
	if !ok {
		return
	}
	switch ev {
	case "Stall":
		if st.mode != "ok" {
			return
		}
		st.mode = "stall"
		st.clean = false
	case "Resume":
		if st.mode != "stall" {
			return
		}
		st.mode = "ok"
	case "Fail":
		if st.mode == "fail" {
			return
		}
		st.mode = "fail"
	case "Cancel":
		if st.cancelled {
			return
		}
		st.cancelled = true
	}
	r.emit(ev, map[string]interface{}{"s": name})
	if ev == "Cancel" {
		st.cancel()
	}
	r.cond.Broadcast()
}

// sync waits until every subscriber that is reading has provably received everything queued for it, and
// every cancelled stream has ended.  Returns false after a timeout.
func (r *shRun) sync() bool {
	start := time.Now()
	for {
		r.nsync++
		y := fmt.Sprintf("y%d", r.nsync)
		if !r.publish(y, shSyncChain, shSyncAddr) {
			return false
		}
		r.mu.Lock()
		var must []*shStream
		for _, n := range r.order {
			st := r.subs[n]
			if st.entered && !st.returned && !st.cancelled && st.mode == "ok" {
				must = append(must, st)
			}
		}
		r.mu.Unlock()
		again := false
		for _, st := range must {
			st := st
			d := shDeadline
			if !st.clean {
				d = 100 * time.Millisecond // recovering after a stall: this sentinel may legitimately be dropped
			}
			ok := r.waitFor(func() bool { return st.got[y] || st.returned || st.mode != "ok" || st.cancelled }, d)
			if ok {
				r.mu.Lock()
				if st.got[y] {
					st.clean = true
				}
				r.mu.Unlock()
				continue
			}
			if st.clean || time.Since(start) > shDeadline {
				r.timeout("Delivery", map[string]interface{}{"s": st.name, "v": y, "afterResume": !st.clean}, "handler:"+st.name)
				return false
			}
			again = true
		}
		if !again {
			break
		}
	}
	// removal of cancelled subscriptions
	r.mu.Lock()
	var gone []*shStream
	for _, n := range r.order {
		st := r.subs[n]
		if st.cancelled && !st.returned {
			gone = append(gone, st)
		}
	}
	r.mu.Unlock()
	for _, st := range gone {
		st := st
		if !r.waitFor(func() bool { return st.returned }, shDeadline) {
			r.timeout("Remove", map[string]interface{}{"s": st.name}, "handler:"+st.name)
			return false
		}
	}
	return true
}

// queueCap reads the capacity of a subscription's channel from the code under test (in-package), so that a flood
// always crosses the implementation's own overflow boundary whatever the buffer size is.
func (r *shRun) queueCap() int {
	c := -1
	r.waitFor(func() bool {
		if r.srv.subsMu.TryLock() {
			for _, sub := range r.srv.subs {
				c = cap(sub.ch)
				break
			}
			r.srv.subsMu.Unlock()
			return true
		}
		return false
	}, shDeadline)
	return c
}

// flood publishes cap(sub.ch)+extra VAAs, one after the other, each with the usual deadline.  Most of them carry
// emitter `em` (matched by the subscribers the scenario stalled), every `every`-th one carries `other` (matched by
// the subscribers that keep reading), so that the readers' progress is visible without one line per reader per VAA;
// from 48 VAAs before the queue capacity is reached onwards (a stalled subscriber without filters also queues the
// `other` ones and the sentinels, so its queue overflows that much earlier) they carry `both`, which stalled subscribers and readers
// match alike: the VAA that overflows a stalled subscriber's queue is owed to every reader, exactly once.
func (r *shRun) flood(a map[string]interface{}) bool {
	c := r.queueCap()
	if c < 0 {
		r.timeout("Mutex", map[string]interface{}{}, "")
		return false
	}
	n := c + vhInt(a, "extra", 4)
	em, other, both := vhMap(a, "em"), vhMap(a, "other"), vhMap(a, "both")
	every := vhInt(a, "every", 97)
	r.mu.Lock()
	r.emit("FloodInfo", map[string]interface{}{"cap": c, "n": n})
	r.mu.Unlock()
	// n counts the VAAs with emitter `em` only, so the stalled subscribers' queues overflow whatever their filters
	matched := 0
	for i := 1; matched < n; i++ {
		e := em
		if i%every == 0 {
			e = other
		} else {
			if len(both) > 0 && matched >= c-48 {
				e = both // around the overflow point: VAAs that the stalled subscribers AND the readers match
			}
			matched++
		}
		if !r.publish(fmt.Sprintf("f%d", i), vhInt(e, "c", 0), vhStr(e, "a")) {
			return false
		}
	}
	for i := 1; i <= 2; i++ { // and the readers' emitter once more after the overflow
		if !r.publish(fmt.Sprintf("g%d", i), vhInt(other, "c", 0), vhStr(other, "a")) {
			return false
		}
	}
	return true
}

// probes: after a Publish that does not return, are registration and removal still possible?
func (r *shRun) probes() {
	var wg sync.WaitGroup
	wg.Add(1)
	go func() {
		defer wg.Done()
		r.subscribe("probe", nil, false)
	}()
	r.mu.Lock()
	var victim *shStream
	for _, n := range r.order {
		st := r.subs[n]
		if n != "probe" && st.entered && !st.returned && !st.cancelled && st.mode == "ok" {
			victim = st
			break
		}
	}
	r.mu.Unlock()
	if victim != nil {
		r.fault("Cancel", victim.name)
		if !r.waitFor(func() bool { return victim.returned }, shDeadline) {
			r.timeout("Remove", map[string]interface{}{"s": victim.name}, "handler:"+victim.name)
		}
	}
	wg.Wait()
}

func (r *shRun) finish() {
	r.mu.Lock()
	r.closed = true
	r.release = true
	for _, st := range r.subs {
		st.cancel()
	}
	r.cond.Broadcast()
	r.mu.Unlock()
}

func shRunScenario(w *shWorld, sc vhScenario) {
	r := &shRun{w: w, sc: sc.ID, srv: newSpyServer(zap.NewNop()), subs: map[string]*shStream{}, names: map[string]string{}}
	r.cond = sync.NewCond(&r.mu)
	if o, ok := sc.Bodies["opt"]; ok {
		r.probe = vhBool(o, "probe")
	}
	defer r.finish()
	r.mu.Lock()
	r.emit("Reset", map[string]interface{}{})
	r.mu.Unlock()
	ok := true
	for _, st := range sc.Steps {
		switch st.Ev {
		case "Subscribe":
			ok = r.subscribeReq(vhStr(st.A, "s"), vhList(st.A, "f"), vhBool(st.A, "dup"), vhStr(st.A, "conn"), vhInt(st.A, "unknown", 0), vhStr(st.A, "at"))
		case "Publish":
			v := vhMap(st.A, "v")
			em := vhMap(v, "em")
			ok = r.publishBytes(vhStr(v, "id"), vhInt(em, "c", 0), vhStr(em, "a"), vhStr(v, "bad"))
		case "Stall", "Resume", "Fail", "Cancel":
			r.fault(st.Ev, vhStr(st.A, "s"))
		case "Sync":
			ok = r.sync()
		case "Flood":
			ok = r.flood(st.A)
		}
		if !ok {
			break
		}
	}
	if ok {
		ok = r.sync()
	}
	if ok {
		// projected state at quiescence: the number of entries in spyServer.subs (read under its own mutex)
		n := -1
		if !r.waitFor(func() bool {
			if r.srv.subsMu.TryLock() {
				n = len(r.srv.subs)
				r.srv.subsMu.Unlock()
				return true
			}
			return false
		}, shDeadline) {
			r.timeout("Mutex", map[string]interface{}{}, "")
			return
		}
		r.mu.Lock()
		r.emit("End", map[string]interface{}{"nsubs": n})
		r.mu.Unlock()
		return
	}
	if r.probe {
		r.probes()
	}
}

func TestVerifSpyReplay(t *testing.T) {
	scp, trp := os.Getenv("VERIF_SCENARIOS"), os.Getenv("VERIF_TRACE")
	if scp == "" || trp == "" {
		t.Skip("VERIF_SCENARIOS / VERIF_TRACE not set")
	}
	if ms, err := strconv.Atoi(os.Getenv("VERIF_SPY_DEADLINE_MS")); err == nil && ms > 0 {
		shDeadline = time.Duration(ms) * time.Millisecond
	}
	par := 32
	if p, err := strconv.Atoi(os.Getenv("VERIF_SPY_PAR")); err == nil && p > 0 {
		par = p
	}
	scs, err := vhLoadScenarios(scp)
	if err != nil {
		t.Fatal(err)
	}
	tr, err := vhOpenTrace(trp)
	if err != nil {
		t.Fatal(err)
	}
	w := &shWorld{trace: tr, keys: vhNewKeys("spy|" + os.Getenv("VERIF_SEED"))}
	w.keys.Key("g1")
	idx := make(chan int)
	var wg sync.WaitGroup
	for i := 0; i < par; i++ {
		wg.Add(1)
		go func() {
			defer wg.Done()
			for k := range idx {
				shRunScenario(w, scs[k])
			}
		}()
	}
	for k := range scs {
		idx <- k
	}
	close(idx)
	wg.Wait()
	tr.Close()
	fmt.Printf("VERIF-REPLAYED %d scenarios\n", len(scs))
}
