package alephium

// C11 harness (model-based-testing form): every class combination exported by TLC from
// spec/MC_AlphDecode.tla is instantiated with concrete go-sdk values (several seeded representatives per
// class), run through the REAL ToWormholeMessage / toMessagePublication / parseAttestToken / contract-id
// helpers of this package, and logged as one NDJSON line per evaluation: the abstract classes and the real
// outcome.  TLC (spec/Trace_AlphDecode.tla) decides every line.  Injected via -overlay; not part of /repo.
//
// ORACLE MAPPING (the numeric meaning of the classes; AlphDecode.tla only fixes their order):
//   "0" "1" "254" "255" "256" "65534" "65535" "65536"  the decimal strings themselves
//   r8 in 2..253, r16 in 257..65533, r64 in 65537..2^64-2, r256 in 2^64+1..2^256-2 (seeded random)
//   u64max = 2^64-1, p64 = 2^64, u256max = 2^256-1
//   neg1 "-1", plus1 "+1", us "1_0", empty "", abc "abc"
//   vBool / vByteVec / vI256 / vAddress / vArray: another Val variant; vNone: no variant; tag: U256 variant typed "I256"
//   b32 / b32z / b32f: 32 random / zero / ff bytes; b31 b33 b0: other lengths; n4.. likewise for the 4-byte nonce
//   p0 empty, p1 = 01, pT = 133-byte transfer payload (id 1), pA = 100-byte attestation (id 2), pBig = 2000 bytes
//   odd = odd-length hex, nonhex = non-hex characters, vU256 / vBool / vNone other variants, tag: ByteVec typed "U256"

import (
	"time"
	"sync/atomic"
	"sync"
	"bytes"
	"encoding/binary"
	"encoding/hex"
	"encoding/json"
	"fmt"
	"math/big"
	"math/rand"
	"os"
	"strconv"
	"testing"

	sdk "github.com/alephium/go-sdk"
	"github.com/btcsuite/btcutil/base58"
)

type adCase struct {
	N int      `json:"n"`
	F []string `json:"f"`
}

type adAttest struct {
	Len   string `json:"len"`
	Chain string `json:"chain"`
	Dec   string `json:"dec"`
	Sym   string `json:"sym"`
	Name  string `json:"name"`
}

type adInput struct {
	Cases  []adCase   `json:"cases"`
	Attest []adAttest `json:"attest"`
	Ids    []string   `json:"ids"`
	Ts     []string   `json:"ts"`
	Reps   int        `json:"reps"`
}

var adTwo = big.NewInt(2)

func adPow2(n int64) *big.Int { return new(big.Int).Exp(adTwo, big.NewInt(n), nil) }

func adRandBetween(r *rand.Rand, lo, hi *big.Int) *big.Int { // inclusive
	span := new(big.Int).Sub(hi, lo)
	span.Add(span, big.NewInt(1))
	return new(big.Int).Add(lo, new(big.Int).Rand(r, span))
}

// adNum: class -> (Val, mathematical value or nil)
func adNum(c string, r *rand.Rand) (sdk.Val, *big.Int) {
	u := func(s string) sdk.Val { return sdk.Val{ValU256: &sdk.ValU256{Type: "U256", Value: s}} }
	n := func(v *big.Int) (sdk.Val, *big.Int) { return u(v.String()), v }
	switch c {
	case "0", "1", "254", "255", "256", "65534", "65535", "65536":
		v, _ := new(big.Int).SetString(c, 10)
		return n(v)
	case "r8":
		return n(adRandBetween(r, big.NewInt(2), big.NewInt(253)))
	case "r16":
		return n(adRandBetween(r, big.NewInt(257), big.NewInt(65533)))
	case "r64":
		return n(adRandBetween(r, big.NewInt(65537), new(big.Int).Sub(adPow2(64), big.NewInt(2))))
	case "u64max":
		return n(new(big.Int).Sub(adPow2(64), big.NewInt(1)))
	case "p64":
		return n(adPow2(64))
	case "r256":
		return n(adRandBetween(r, new(big.Int).Add(adPow2(64), big.NewInt(1)), new(big.Int).Sub(adPow2(256), big.NewInt(2))))
	case "u256max":
		return n(new(big.Int).Sub(adPow2(256), big.NewInt(1)))
	case "neg1":
		return u("-1"), nil
	case "plus1":
		return u("+1"), big.NewInt(1)
	case "us":
		return u("1_0"), nil
	case "empty":
		return u(""), nil
	case "abc":
		return u("abc"), nil
	case "vBool":
		return sdk.Val{ValBool: &sdk.ValBool{Type: "Bool", Value: true}}, nil
	case "vByteVec":
		return sdk.Val{ValByteVec: &sdk.ValByteVec{Type: "ByteVec", Value: "01"}}, nil
	case "vI256":
		return sdk.Val{ValI256: &sdk.ValI256{Type: "I256", Value: "1"}}, nil
	case "vAddress":
		return sdk.Val{ValAddress: &sdk.ValAddress{Type: "Address", Value: "14PqtYSSbwpUi2RJKUvv9yUwGafd6yHbEcke7ionuiE7w"}}, nil
	case "vArray":
		return sdk.Val{ValArray: &sdk.ValArray{Type: "Array", Value: []sdk.Val{u("1")}}}, nil
	case "vNone":
		return sdk.Val{}, nil
	case "tag":
		return sdk.Val{ValU256: &sdk.ValU256{Type: "I256", Value: "1"}}, nil
	}
	panic("adNum: unknown class " + c)
}

func adRandBytes(r *rand.Rand, n int) []byte {
	b := make([]byte, n)
	r.Read(b)
	return b
}

func adAttestPayload(r *rand.Rand) []byte {
	p := []byte{2}
	tok := adRandBytes(r, 32)
	p = append(p, tok...)
	p = append(p, 0x00, 0xff, 8)
	p = append(p, append(make([]byte, 27), []byte("TOKEN")...)...)
	p = append(p, append(make([]byte, 22), []byte("Test Token")...)...)
	return p
}

// adBytes: class -> (Val, bytes it stands for or nil)
func adBytes(c string, r *rand.Rand) (sdk.Val, []byte) {
	bv := func(h string) sdk.Val { return sdk.Val{ValByteVec: &sdk.ValByteVec{Type: "ByteVec", Value: h}} }
	b := func(x []byte) (sdk.Val, []byte) { return bv(hex.EncodeToString(x)), x }
	switch c {
	case "b32":
		return b(adRandBytes(r, 32))
	case "b32z":
		return b(make([]byte, 32))
	case "b32f":
		return b(bytes.Repeat([]byte{0xff}, 32))
	case "b31":
		return b(adRandBytes(r, 31))
	case "b33":
		return b(adRandBytes(r, 33))
	case "b0", "n0", "p0":
		return b([]byte{})
	case "n4":
		return b(adRandBytes(r, 4))
	case "n4z":
		return b(make([]byte, 4))
	case "n4f":
		return b(bytes.Repeat([]byte{0xff}, 4))
	case "n3":
		return b(adRandBytes(r, 3))
	case "n5":
		return b(adRandBytes(r, 5))
	case "p1":
		return b([]byte{1})
	case "pT":
		return b(append([]byte{1}, adRandBytes(r, 132)...))
	case "pA":
		return b(adAttestPayload(r))
	case "pBig":
		return b(append([]byte{3}, adRandBytes(r, 1999)...))
	case "odd":
		return bv("abc"), nil
	case "nonhex":
		return bv("zzzzzzzz"), nil
	case "vU256":
		return sdk.Val{ValU256: &sdk.ValU256{Type: "U256", Value: "1"}}, nil
	case "vBool":
		return sdk.Val{ValBool: &sdk.ValBool{Type: "Bool", Value: false}}, nil
	case "vNone":
		return sdk.Val{}, nil
	case "tag":
		return sdk.Val{ValByteVec: &sdk.ValByteVec{Type: "U256", Value: "01020304"}}, nil
	}
	panic("adBytes: unknown class " + c)
}

var adTsMs = map[string]int64{"t0": 0, "t999": 999, "t1000": 1000, "t1001": 1001, "tnow": 1700000000123}

// adPrepared: the concrete event of one abstract case, built once; adJudge evaluates one decoding of it.
type adPrepared struct {
	fields                 []sdk.Val
	sender, nonce, payload []byte
	chain, seq, cl         *big.Int
	txId, rendered, hdrHash string
}

func adDecodeOne(c adCase, ts string, r *rand.Rand) (s map[string]interface{}) {
	p := adPrepare(c, r)
	return p.decode(ts)
}

func (p *adPrepared) decode(ts string) (s map[string]interface{}) {
	s = map[string]interface{}{"fields": p.rendered}
	defer func() {
		if x := recover(); x != nil {
			s["out"] = "panic"
			s["err"] = fmt.Sprint(x)
		}
	}()
	msg, err := ToWormholeMessage(p.fields, p.txId)
	return p.judge(ts, msg, err, s)
}

func adPrepare(c adCase, r *rand.Rand) *adPrepared {
	vals := make([]sdk.Val, 6)
	var sender, nonce, payload []byte
	var chain, seq, cl *big.Int
	vals[0], sender = adBytes(c.F[0], r)
	vals[1], chain = adNum(c.F[1], r)
	vals[2], seq = adNum(c.F[2], r)
	vals[3], nonce = adBytes(c.F[3], r)
	vals[4], payload = adBytes(c.F[4], r)
	vals[5], cl = adNum(c.F[5], r)
	fields := vals
	switch c.N {
	case 5:
		fields = vals[:5]
	case 7:
		fields = append(append([]sdk.Val{}, vals...), sdk.Val{ValU256: &sdk.ValU256{Type: "U256", Value: "0"}})
	}
	txId := hex.EncodeToString(adRandBytes(r, 32))
	rendered, _ := json.Marshal(fields)
	return &adPrepared{fields: fields, sender: sender, nonce: nonce, payload: payload, chain: chain, seq: seq, cl: cl,
		txId: txId, rendered: string(rendered), hdrHash: hex.EncodeToString(adRandBytes(r, 32))}
}

func (p *adPrepared) judge(ts string, msg *WormholeMessage, err error, s map[string]interface{}) map[string]interface{} {
	sender, nonce, payload, chain, seq, cl, txId := p.sender, p.nonce, p.payload, p.chain, p.seq, p.cl, p.txId
	if err != nil {
		s["out"] = "reject"
		s["err"] = err.Error()
		return s
	}
	s["out"] = "ok"
	eqNum := func(got uint64, want *big.Int) bool {
		return want != nil && new(big.Int).SetUint64(got).Cmp(want) == 0
	}
	eq := []bool{
		sender != nil && bytes.Equal(msg.senderId[:], sender),
		eqNum(uint64(msg.targetChainId), chain),
		eqNum(msg.Sequence, seq),
		nonce != nil && len(nonce) == 4 && msg.nonce == binary.BigEndian.Uint32(nonce),
		payload != nil && bytes.Equal(msg.payload, payload),
		eqNum(uint64(msg.consistencyLevel), cl),
	}
	s["eq"] = eq
	s["tx"] = msg.txId == txId
	s["got"] = fmt.Sprintf("chain=%d seq=%d nonce=%d cl=%d payload=%dB", msg.targetChainId, msg.Sequence, msg.nonce, msg.consistencyLevel, len(msg.payload))
	// toMessagePublication
	hdr := &sdk.BlockHeaderEntry{Hash: p.hdrHash, Timestamp: adTsMs[ts], Height: 7}
	pub := msg.toMessagePublication(hdr)
	same := pub.Nonce == msg.nonce && pub.Sequence == msg.Sequence && pub.ConsistencyLevel == msg.consistencyLevel &&
		uint16(pub.TargetChain) == msg.targetChainId && bytes.Equal(pub.EmitterAddress[:], msg.senderId[:]) &&
		bytes.Equal(pub.Payload, msg.payload) && hex.EncodeToString(pub.TxHash[:]) == txId
	s["pub"] = map[string]interface{}{
		"echain": int(pub.EmitterChain),
		"sec":    strconv.FormatInt(pub.Timestamp.Unix(), 10),
		"nsec":   strconv.FormatInt(int64(pub.Timestamp.Nanosecond()), 10),
		"same":   same,
	}
	return s
}

func adText(c string, label string) (field []byte, want string) {
	field = make([]byte, 32)
	switch c {
	case "lead":
		copy(field[32-len(label):], label)
		return field, label
	case "trail":
		copy(field, label)
		return field, label
	case "zeros":
		return field, ""
	case "full":
		t := (label + "-0123456789abcdefghijklmnopqrstuvwxyz")[:32]
		copy(field, t)
		return field, t
	case "inner":
		t := label + "\x00" + "x"
		copy(field[32-len(t):], t)
		return field, t
	}
	panic("adText: " + c)
}

func adAttestOne(a adAttest, r *rand.Rand) (s map[string]interface{}) {
	s = map[string]interface{}{}
	tok := adRandBytes(r, 32)
	chain := map[string][]byte{"alph": {0x00, 0xff}, "zero": {0, 0}, "swapped": {0xff, 0x00}, "eth": {0, 2}}[a.Chain]
	dec, _ := strconv.Atoi(a.Dec)
	symF, symW := adText(a.Sym, "SYM")
	nameF, nameW := adText(a.Name, "My Token")
	p := []byte{2}
	p = append(p, tok...)
	p = append(p, chain...)
	p = append(p, byte(dec))
	p = append(p, symF...)
	p = append(p, nameF...)
	switch a.Len {
	case "99":
		p = p[:99]
	case "101":
		p = append(p, 0)
	case "0":
		p = []byte{}
	}
	defer func() {
		if x := recover(); x != nil {
			s["out"] = "panic"
			s["err"] = fmt.Sprint(x)
		}
	}()
	info, err := parseAttestToken(p)
	if err != nil {
		s["out"] = "reject"
		s["err"] = err.Error()
		return s
	}
	s["out"] = "ok"
	s["eq"] = map[string]bool{"tok": bytes.Equal(info.TokenId[:], tok), "dec": int(info.Decimals) == dec,
		"sym": info.Symbol == symW, "name": info.Name == nameW}
	return s
}

func adIdOne(c string, r *rand.Rand) map[string]interface{} {
	var raw []byte
	var hx string
	switch c {
	case "rnd":
		raw = adRandBytes(r, 32)
	case "zero":
		raw = make([]byte, 32)
	case "ff":
		raw = bytes.Repeat([]byte{0xff}, 32)
	case "len31":
		raw = adRandBytes(r, 31)
	case "len33":
		raw = adRandBytes(r, 33)
	case "nonhex":
		hx = "zz" + hex.EncodeToString(adRandBytes(r, 31))
	case "empty":
		raw = []byte{}
	}
	if hx == "" {
		hx = hex.EncodeToString(raw)
	}
	res := map[string]interface{}{}
	// id -> address -> id
	func() {
		defer func() {
			if x := recover(); x != nil {
				res["a2i"] = "panic"
			}
		}()
		addr, err := ToContractAddress(hx)
		var id Byte32
		var err2 error
		if err == nil {
			id, err2 = ToContractId(*addr)
		}
		// the inverse direction on a malformed address of the same (wrong) length
		_, err3 := ToContractId(base58.Encode(append([]byte{0x03}, raw...)))
		switch {
		case err != nil && (len(raw) == 32 || err3 != nil):
			res["a2i"] = "reject"
		case err == nil && err2 == nil && id.ToHex() == hx:
			res["a2i"] = "same"
			if a2, e := ToContractAddress(id.ToHex()); e != nil || *a2 != *addr {
				res["a2i"] = "other"
			}
		default:
			res["a2i"] = "other"
		}
	}()
	func() {
		defer func() {
			if x := recover(); x != nil {
				res["hex"] = "panic"
			}
		}()
		b, err := HexToByte32(hx)
		switch {
		case err != nil:
			res["hex"] = "reject"
		case b.ToHex() == hx && bytes.Equal(b[:], raw):
			res["hex"] = "same"
		default:
			res["hex"] = "other"
		}
	}()
	return res
}

func TestVerifAlphDecode(t *testing.T) {
	in := os.Getenv("VERIF_CASES")
	out := os.Getenv("VERIF_TRACE")
	if in == "" || out == "" {
		t.Skip("VERIF_CASES / VERIF_TRACE not set")
	}
	raw, err := os.ReadFile(in)
	if err != nil {
		t.Fatal(err)
	}
	var inp adInput
	if err := json.Unmarshal(raw, &inp); err != nil {
		t.Fatal(err)
	}
	seed, _ := strconv.ParseInt(os.Getenv("VERIF_SEED"), 10, 64)
	r := rand.New(rand.NewSource(seed*7919 + 11))
	tr, err := vhOpenTrace(out)
	if err != nil {
		t.Fatal(err)
	}
	defer tr.Close()
	if inp.Reps < 1 {
		inp.Reps = 1
	}
	k := 0
	for _, c := range inp.Cases {
		for rep := 0; rep < inp.Reps; rep++ {
			ts := inp.Ts[k%len(inp.Ts)]
			k++
			s := adDecodeOne(c, ts, r)
			tr.Emit(1, "Decode", map[string]interface{}{"n": c.N, "f": c.F, "ts": ts}, s)
		}
	}
	for _, a := range inp.Attest {
		for rep := 0; rep < inp.Reps; rep++ {
			tr.Emit(1, "Attest", a, adAttestOne(a, r))
		}
	}
	for _, c := range inp.Ids {
		for rep := 0; rep < inp.Reps; rep++ {
			tr.Emit(1, "Id", map[string]interface{}{"c": c}, adIdOne(c, r))
		}
	}
	// The node decodes events on two goroutines (the event poller and the re-observation handler): the same cases
	// again, several goroutines at once, each with its own slice of the cases.  Decoding is a function of the event,
	// so every line is judged by the specification exactly like a sequential one.
	workers := 32
	budget := 2500 * time.Millisecond
	if inp.Reps > 1 {
		budget = 8 * time.Second // thorough tier
	}
	var wg sync.WaitGroup
	var emitted, total int64
	deadline := time.Now().Add(budget)
	for w := 0; w < workers; w++ {
		wg.Add(1)
		go func(w int) {
			defer wg.Done()
			rw := rand.New(rand.NewSource(seed*104729 + int64(w)))
			var iters int64
			defer func() { atomic.AddInt64(&total, iters) }()
			// the events are built once; the hot loop only decodes and compares with the first outcome of the same event
			// (decoding is a function of the event), so the goroutines spend their time inside the code under test
			type prep struct {
				p     *adPrepared
				c     adCase
				first string
			}
			var mine []prep
			for i, c := range inp.Cases {
				if i%workers == w {
					mine = append(mine, prep{p: adPrepare(c, rw), c: c})
				}
			}
			fp := func(msg *WormholeMessage, err error) string {
				if err != nil {
					return "reject"
				}
				return fmt.Sprintf("ok|%x|%d|%d|%d|%d|%x", msg.senderId, msg.targetChainId, msg.Sequence, msg.nonce, msg.consistencyLevel, msg.payload)
			}
			for round := 0; round < 3 || time.Now().Before(deadline); round++ {
				for k := range mine {
					iters++
					m := &mine[k]
					ts := inp.Ts[(k+round)%len(inp.Ts)]
					var msg *WormholeMessage
					var err error
					pan := ""
					func() {
						defer func() {
							if x := recover(); x != nil {
								pan = fmt.Sprint(x)
							}
						}()
						msg, err = ToWormholeMessage(m.p.fields, m.p.txId)
					}()
					f := "panic|" + pan
					if pan == "" {
						f = fp(msg, err)
					}
					if m.first != "" && f == m.first {
						continue
					}
					if m.first == "" {
						m.first = f
					}
					if atomic.AddInt64(&emitted, 1) > 4000 {
						continue
					}
					s := map[string]interface{}{"fields": m.p.rendered}
					if pan != "" {
						s["out"], s["err"] = "panic", pan
					} else {
						s = m.p.judge(ts, msg, err, s)
					}
					tr.Emit(1, "Decode", map[string]interface{}{"n": m.c.N, "f": m.c.F, "ts": ts, "mode": "concurrent"}, s)
				}
			}
		}(w)
	}
	wg.Wait()
	fmt.Println("VERIF-CONCURRENT-DECODES", total)
	fmt.Println("VERIF-DECODED", k)
}
