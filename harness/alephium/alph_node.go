package alephium

// C08 / C09 harness: the REAL Watcher.Run under a REAL supervisor against a SCRIPTED FAKE ALEPHIUM NODE
// (net/http/httptest serving the REST routes the go-sdk client uses).  Injected via -overlay; not part of /repo.
//
// ONE mutex (anNode.mu) orders everything:
//   - every served request is logged together with its answer while the mutex is held: that is the watcher's
//     linearization point for this request;
//   - before a request is answered, everything the watcher has put on its output channel so far is received and logged
//     ("Out" lines), so the position of every output relative to the watcher's own node calls is exact;
//   - scripted environment changes ("after the 2nd count request, append two events") are applied and logged ("Env"
//     lines) right after the request that triggers them, still under the mutex;
//   - re-observation requests are put on the watcher's request channel as an environment step.
// Trace lines: {"t":scenario,"n":seq,"ev":..,"a":{..},"clk":seconds since the scenario began}.
// The trace file is written unbuffered: if the watcher crashes the process (a panic in one of its goroutines cannot
// be recovered from outside) everything up to the crash is on disk and the parent (lib/fam_alph.py) records the death.

import (
	"context"
	"crypto/sha256"
	"encoding/binary"
	"encoding/hex"
	"encoding/json"
	"fmt"
	"io"
	"net/http"
	"net/http/httptest"
	"os"
	"strconv"
	"strings"
	"sync"
	"testing"
	"time"

	"github.com/alephium/wormhole-fork/node/pkg/common"
	gossipv1 "github.com/alephium/wormhole-fork/node/pkg/proto/gossip/v1"
	"github.com/alephium/wormhole-fork/node/pkg/readiness"
	"github.com/alephium/wormhole-fork/node/pkg/supervisor"
	"github.com/alephium/wormhole-fork/node/pkg/vaa"
	"go.uber.org/zap"
)

// ---------------------------------------------------------------- scenario format (written by lib/fam_alph.py)

type anEvent struct {
	ID    int    `json:"id"`
	Blk   int    `json:"blk"`
	Tx    int    `json:"tx"`
	Gov   bool   `json:"gov"`
	Ei    int    `json:"ei"`
	Ok    bool   `json:"ok"`
	Tb    bool   `json:"tb"`
	Cl    int    `json:"cl"`
	Kind  string `json:"kind"`
	Tok   string `json:"tok"`
	Claim string `json:"claim"`
	Bad   string `json:"bad"` // concrete malformation when !Ok (not part of the abstract event)
	Plen  int    `json:"plen"` // concrete payload length: 0 = the usual one of the kind, -1 = EMPTY payload, n = exactly n bytes
	Pid   int    `json:"pid"`  // first payload byte of kind "other" (0: 3); transfers always start with 1, attestations with 2
	Tgt   int    `json:"tgt"` // concrete target chain (0: 2 + id%2); sequences are 1000 + id, i.e. increasing in emission order per target chain
}

type anOp struct {
	Op    string   `json:"op"` // block emit foreign reorg height lagheight tok req failnext hold
	B     int      `json:"b"`
	H     int      `json:"h"`
	Ts    int      `json:"ts"` // seconds relative to the start of the scenario
	E     *anEvent `json:"e"`
	ID    string   `json:"id"`
	Shape string   `json:"shape"`
	Tx    int      `json:"tx"`
	Route string   `json:"route"`
	Chain int      `json:"chain"` // req: chain id named by the re-observation request (0 = Alephium's, 255)
	Len   int      `json:"len"`   // req: length of the tx hash in the request (0 = 32)
	Ms    int      `json:"ms"` // hold: delay the next request on Route by this many milliseconds before it is served
}

type anTrigger struct {
	Route string `json:"route"`
	Nth   int    `json:"nth"`
}

type anStep struct {
	After *anTrigger `json:"after"` // nil: fire when the previous step has fired and the watcher has been given `idleMs`
	Ops   []anOp     `json:"ops"`
}

type anScenario struct {
	ID         int      `json:"id"`
	Mainnet    bool     `json:"mainnet"`
	Page       int      `json:"page"`
	PollMs     int      `json:"pollMs"`
	Pre        []anOp   `json:"pre"`
	Steps      []anStep `json:"steps"`
	Expect     []int    `json:"expect"` // event ids the specification says must be forwarded by the polling path
	DeadlineMs int      `json:"deadlineMs"`
	SettleMs   int      `json:"settleMs"`
	IdleMs     int      `json:"idleMs"`
}

// ---------------------------------------------------------------- trace (unbuffered)

type anTrace struct {
	f *os.File
	n int
}

func (t *anTrace) emit(scn int, ev string, a interface{}, clk int) {
	t.n++
	if a == nil {
		a = map[string]interface{}{}
	}
	b, err := json.Marshal(map[string]interface{}{"t": scn, "n": t.n, "ev": ev, "a": a, "clk": clk})
	if err != nil {
		panic(err)
	}
	t.f.Write(append(b, '\n'))
}

// ---------------------------------------------------------------- the fake node

type anBlock struct {
	id     int
	height int
	ts     int
	main   bool
}

type anNode struct {
	mu      sync.Mutex
	sc      *anScenario
	tr      *anTrace
	t0      time.Time
	closed  bool
	blocks  map[int]*anBlock
	height  int
	stream  []*anEvent
	foreign []*anEvent
	byID    map[int]*anEvent
	tok     map[string]string
	failNx  map[string]int
	holdNx  map[string][]int // schedule control: pending delays (ms) for the next requests of a route
	served  map[string]int
	next    int       // next script step
	armedAt time.Time // when the next step became the current one
	lastAct time.Time // last line that is progress (not an idle poll)
	seen    map[int]int
	msgC    chan *common.MessagePublication
	obsvC   chan *gossipv1.ObservationRequest
	reqTxs  []int
	reqValid int // re-observation requests for this watcher that were put on its channel
	spinKey string
	spinN   int
	spun    bool
	exits   int

	govID, tbID, foreignID Byte32
	govAddr                string
}

func anHash(parts ...interface{}) [32]byte { return sha256.Sum256([]byte(fmt.Sprint(parts...))) }

func (nd *anNode) blockHash(b int) string {
	h := anHash("blk|", nd.sc.ID, "|", b)
	return hex.EncodeToString(h[:])
}
func (nd *anNode) txHash(tx int) string {
	h := anHash("tx|", nd.sc.ID, "|", tx)
	return hex.EncodeToString(h[:])
}
func (nd *anNode) blockOf(hash string) int {
	for id := range nd.blocks {
		if nd.blockHash(id) == hash {
			return id
		}
	}
	return -1
}
func (nd *anNode) txOf(hash string) int {
	seen := map[int]bool{}
	for _, l := range [][]*anEvent{nd.stream, nd.foreign} {
		for _, e := range l {
			if !seen[e.Tx] && nd.txHash(e.Tx) == hash {
				return e.Tx
			}
			seen[e.Tx] = true
		}
	}
	for _, tx := range nd.reqTxs {
		if nd.txHash(tx) == hash {
			return tx
		}
	}
	return -1
}

func (nd *anNode) clk() int { return int(time.Since(nd.t0) / time.Second) }

func (nd *anNode) log(ev string, a interface{}) {
	nd.tr.emit(nd.sc.ID, ev, a, nd.clk())
}

// token ids: "alph" is the native token (all zero); every other name is a contract id in group 0
func anTokID(name string) Byte32 {
	var id Byte32
	if name == "alph" {
		return id
	}
	h := anHash("tok|", name)
	copy(id[:], h[:])
	id[31] = 0
	return id
}

type anMeta struct {
	dec  int
	sym  string
	name string
}

// metadata classes.  m1 is the reference; m1d / m1s / m1n differ from it in EXACTLY ONE field (decimals / symbol / name),
// m2 in all three, m3 = m1n; "badchain" (payload only) is m1 with another token chain id; malphd / malphn differ from the
// native token's constant metadata in decimals / name only.
var anMetas = map[string]anMeta{"m1": {8, "TKA", "Token A"}, "m2": {9, "TKB", "Token B"}, "m3": {8, "TKA", "Token B"},
	"m1d": {18, "TKA", "Token A"}, "m1s": {8, "TKB", "Token A"}, "m1n": {8, "TKA", "Token B"}, "badchain": {8, "TKA", "Token A"},
	"malph": {18, "ALPH", "Alephium"}, "malphd": {8, "ALPH", "Alephium"}, "malphn": {18, "ALPH", "Alephium Coin"}}

func anPad32(s string) []byte {
	b := make([]byte, 32)
	copy(b[32-len(s):], s)
	return b
}

func anVal(tpe string, v interface{}) map[string]interface{} {
	return map[string]interface{}{"type": tpe, "value": v}
}

// payload of an event (deterministic per event id)
// payload of an event.  ORACLE MAPPING: kind "transfer" = first byte 1 WHATEVER the length (the contract builds
// 101 + size(recipient) bytes, any recipient size; Plen picks the length), kind "attest" = first byte 2 (claim "badlen":
// first byte 2 but not 100 bytes), kind "other" = any other first byte or the EMPTY payload (Plen = -1).
func (nd *anNode) payload(e *anEvent) []byte {
	if e.Plen < 0 {
		return []byte{}
	}
	fill := func(first byte, n int) []byte {
		return append([]byte{first}, vhExpand(fmt.Sprint("pl|", nd.sc.ID, "|", e.ID), n-1)...)
	}
	switch e.Kind {
	case "transfer":
		if e.Plen > 0 {
			return fill(1, e.Plen)
		}
		return fill(1, 133)
	case "attest":
		if e.Claim == "badlen" {
			n := e.Plen
			if n <= 0 || n == 100 {
				n = 1
			}
			return fill(2, n)
		}
		m, ok := anMetas[e.Claim]
		if !ok {
			m = anMetas["m1"]
		}
		tid := anTokID(e.Tok)
		p := []byte{2}
		p = append(p, tid[:]...)
		if e.Claim == "badchain" {
			p = append(p, 0x00, 0x02, byte(m.dec)) // token chain id is not Alephium's
		} else {
			p = append(p, 0x00, 0xff, byte(m.dec))
		}
		p = append(p, anPad32(m.sym)...)
		p = append(p, anPad32(m.name)...)
		return p
	}
	first := byte(3)
	if e.Pid != 0 && e.Pid != 1 && e.Pid != 2 {
		first = byte(e.Pid)
	}
	if e.Plen > 0 {
		return fill(first, e.Plen)
	}
	return fill(first, 41)
}

func anTarget(e *anEvent) int {
	if e.Tgt > 0 {
		return e.Tgt
	}
	return 2 + e.ID%2
}

func (nd *anNode) sender(e *anEvent) Byte32 {
	if e.Tb {
		return nd.tbID
	}
	return nd.foreignID
}

// the six fields as the node's JSON; malformed events deviate in exactly the way e.Bad says
func (nd *anNode) fields(e *anEvent) []interface{} {
	snd := nd.sender(e)
	var nonce [4]byte
	binary.BigEndian.PutUint32(nonce[:], uint32(e.ID))
	f := []interface{}{
		anVal("ByteVec", hex.EncodeToString(snd[:])),
		anVal("U256", strconv.Itoa(anTarget(e))),
		anVal("U256", strconv.Itoa(1000+e.ID)),
		anVal("ByteVec", hex.EncodeToString(nonce[:])),
		anVal("ByteVec", hex.EncodeToString(nd.payload(e))),
		anVal("U256", strconv.Itoa(e.Cl)),
	}
	if e.Ok {
		return f
	}
	switch e.Bad {
	case "chain70000":
		f[1] = anVal("U256", "70000")
	case "chain65536":
		f[1] = anVal("U256", "65536")
	case "seq2p64":
		f[2] = anVal("U256", "18446744073709551616")
	case "nonce5":
		f[3] = anVal("ByteVec", hex.EncodeToString(append(nonce[:], 7)))
	case "fields5":
		f = f[:5]
	case "fields7":
		f = append(f, anVal("U256", "0"))
	case "cl256":
		f[5] = anVal("U256", "256")
	case "cl2p200":
		f[5] = anVal("U256", "1606938044258990275541962092341162602522202993782792835301376")
	case "sender31":
		f[0] = anVal("ByteVec", hex.EncodeToString(snd[:31]))
	case "variant":
		f[2] = anVal("Bool", true)
	case "payloadU256":
		f[4] = anVal("U256", "1")
	default:
		f[1] = anVal("U256", "70000")
	}
	return f
}

func (nd *anNode) abstract(e *anEvent) map[string]interface{} {
	return map[string]interface{}{"id": e.ID, "blk": e.Blk, "tx": e.Tx, "gov": e.Gov, "ei": e.Ei, "ok": e.Ok, "tb": e.Tb,
		"cl": e.Cl, "kind": e.Kind, "tok": e.Tok, "claim": e.Claim}
}

func (nd *anNode) tsMillis(b *anBlock) int64 {
	return (nd.t0.Unix()+int64(b.ts))*1000 + int64(b.id%1000)
}

// ---- environment
func (nd *anNode) apply(op anOp) {
	a := map[string]interface{}{"op": op.Op}
	switch op.Op {
	case "block":
		nd.blocks[op.B] = &anBlock{id: op.B, height: op.H, ts: op.Ts, main: true}
		if op.H > nd.height {
			nd.height = op.H
		}
		a["b"], a["h"], a["ts"] = op.B, op.H, op.Ts
	case "emit":
		nd.stream = append(nd.stream, op.E)
		nd.byID[op.E.ID] = op.E
		a["e"] = nd.abstract(op.E)
		a["bad"] = op.E.Bad
	case "foreign":
		nd.foreign = append(nd.foreign, op.E)
		nd.byID[op.E.ID] = op.E
		a["e"] = nd.abstract(op.E)
	case "reorg":
		if b, ok := nd.blocks[op.B]; ok {
			b.main = false
		}
		a["b"] = op.B
	case "height":
		if op.H > nd.height {
			nd.height = op.H
		}
		a["h"] = nd.height
	case "lagheight":
		// the node's reported height falls back / lags behind blocks whose events it already serves
		nd.height = op.H
		a["h"] = nd.height
	case "tok":
		nd.tok[op.ID] = op.Shape
		a["id"], a["shape"] = op.ID, op.Shape
	case "failnext":
		nd.failNx[op.Route]++
		a["route"] = op.Route
	case "hold":
		// schedule control: the next request on this route is served only after `ms` (the watcher's other goroutines
		// run on meanwhile); the request is logged when it is served, so the trace order stays the order of service
		nd.holdNx[op.Route] = append(nd.holdNx[op.Route], op.Ms)
		a["route"], a["ms"] = op.Route, op.Ms
	case "req":
		h := anHash("tx|", nd.sc.ID, "|", op.Tx)
		a["tx"] = op.Tx
		nd.reqTxs = append(nd.reqTxs, op.Tx)
		chain, hl := uint32(vaa.ChainIDAlephium), 32
		if op.Chain != 0 {
			chain = uint32(op.Chain)
		}
		if op.Len != 0 {
			hl = op.Len
		}
		hash := append(append([]byte{}, h[:]...), 1, 2, 3, 4)[:hl]
		a["chain"], a["len"] = int(chain), hl
		a["dropped"] = false
		select {
		case nd.obsvC <- &gossipv1.ObservationRequest{ChainId: chain, TxHash: hash}:
			if chain == uint32(vaa.ChainIDAlephium) && hl == 32 {
				nd.reqValid++ // the re-observer must take it: one tx-status request per such request
			}
		default:
			a["dropped"] = true
		}
	}
	nd.log("Env", a)
	nd.lastAct = time.Now()
}

func (nd *anNode) fire() {
	st := nd.sc.Steps[nd.next]
	for _, op := range st.Ops {
		nd.apply(op)
	}
	nd.next++
	nd.armedAt = time.Now()
}

// ---- outputs: everything the watcher has sent so far, identified by the nonce (= event id)
func (nd *anNode) drain() {
	for {
		select {
		case m := <-nd.msgC:
			id := int(m.Nonce)
			a := map[string]interface{}{"id": id, "exact": false, "blk": -1}
			if e, ok := nd.byID[id]; ok {
				a["blk"] = e.Blk
				snd := nd.sender(e)
				b := nd.blocks[e.Blk]
				wantTs := time.UnixMilli(nd.tsMillis(b))
				exact := m.EmitterChain == vaa.ChainIDAlephium && string(m.EmitterAddress[:]) == string(snd[:]) &&
					m.Sequence == uint64(1000+e.ID) && int(m.TargetChain) == anTarget(e) && int(m.ConsistencyLevel) == e.Cl &&
					string(m.Payload) == string(nd.payload(e)) && hex.EncodeToString(m.TxHash[:]) == nd.txHash(e.Tx) &&
					m.Timestamp.Equal(wantTs)
				a["exact"] = exact
			}
			nd.seen[id]++
			nd.log("Out", a)
			nd.lastAct = time.Now()
		default:
			return
		}
	}
}

func (nd *anNode) writeJSON(w http.ResponseWriter, code int, v interface{}) {
	w.Header().Set("Content-Type", "application/json")
	w.WriteHeader(code)
	json.NewEncoder(w).Encode(v)
}

func (nd *anNode) eventJSON(e *anEvent, byTx bool) map[string]interface{} {
	m := map[string]interface{}{"blockHash": nd.blockHash(e.Blk), "eventIndex": e.Ei, "fields": nd.fields(e)}
	if byTx {
		if e.Gov {
			m["contractAddress"] = nd.govAddr
		} else {
			a, _ := ToContractAddress(nd.foreignID.ToHex())
			m["contractAddress"] = *a
		}
	} else {
		m["txId"] = nd.txHash(e.Tx)
	}
	return m
}

func (nd *anNode) abstractList(l []*anEvent) []interface{} {
	r := []interface{}{}
	for _, e := range l {
		r = append(r, nd.abstract(e))
	}
	return r
}

// multicall answer for one token: returns (http code, body, abstract answer)
func (nd *anNode) multicall(tokName string) (int, interface{}, string) {
	shape, ok := nd.tok[tokName]
	if !ok {
		shape = "fail"
	}
	succ := func(rets ...interface{}) map[string]interface{} {
		return map[string]interface{}{"type": "CallContractSucceeded", "returns": rets, "gasUsed": 1, "contracts": []interface{}{},
			"txInputs": []interface{}{}, "txOutputs": []interface{}{}, "events": []interface{}{}}
	}
	failed := map[string]interface{}{"type": "CallContractFailed", "error": "VM execution error"}
	if shape == "fail" {
		return 500, map[string]interface{}{"detail": "scripted failure"}, "fail"
	}
	m, isMeta := anMetas[shape]
	if !isMeta {
		m = anMetas["m1"]
	}
	res := []interface{}{
		succ(anVal("ByteVec", hex.EncodeToString([]byte(m.sym)))),
		succ(anVal("ByteVec", hex.EncodeToString([]byte(m.name)))),
		succ(anVal("U256", strconv.Itoa(m.dec))),
	}
	switch shape {
	case "short":
		res = res[:2]
	case "long":
		res = append(res, res[0])
	case "failed0":
		res[0] = failed
	case "failed1":
		res[1] = failed
	case "failed2":
		res[2] = failed
	case "empty0":
		res[0] = succ()
	case "empty1":
		res[1] = succ()
	case "empty2":
		res[2] = succ()
	case "badtype":
		res[0] = succ(anVal("U256", "1"))
	case "dec256":
		res[2] = succ(anVal("U256", "256"))
	}
	// "val<pos>:<variant>": call <pos> (0 symbol, 1 name, 2 decimals) succeeds with exactly ONE return value of the given
	// sdk.Val variant; every variant other than the expected one (ByteVec, ByteVec, U256 in 0..255) is no usable answer
	if strings.HasPrefix(shape, "val") && len(shape) > 5 && shape[4] == ':' {
		pos := int(shape[3] - '0')
		var v interface{}
		switch shape[5:] {
		case "bool":
			v = anVal("Bool", true)
		case "i256":
			v = anVal("I256", "-1")
		case "i256pos":
			v = anVal("I256", "8")
		case "u256":
			v = anVal("U256", "8")
		case "u256big":
			v = anVal("U256", "115792089237316195423570985008687907853269984665640564039457584007913129639935")
		case "bytevec":
			v = anVal("ByteVec", "08")
		case "address":
			v = anVal("Address", "14PqtYSSbwpUi2RJKUvv9yUwGafd6yHbEcke7ionuiE7w")
		case "array":
			v = anVal("Array", []interface{}{anVal("U256", "8"), anVal("U256", "8")})
		case "array-empty":
			v = anVal("Array", []interface{}{})
		case "array-nested":
			v = anVal("Array", []interface{}{anVal("Array", []interface{}{anVal("ByteVec", "544b41")}), anVal("Array", []interface{}{})})
		case "array-bytevec":
			v = anVal("Array", []interface{}{anVal("ByteVec", "544b41")})
		}
		if v != nil && pos >= 0 && pos <= 2 {
			res[pos] = succ(v)
		}
	}
	return 200, map[string]interface{}{"results": res}, shape
}

func anRouteOf(p string) string {
	switch {
	case p == "/infos/version":
		return "version"
	case p == "/infos/self-clique":
		return "clique"
	case strings.HasPrefix(p, "/events/contract/") && strings.HasSuffix(p, "/current-count"):
		return "count"
	case strings.HasPrefix(p, "/events/contract/"):
		return "page"
	case strings.HasPrefix(p, "/events/tx-id/"):
		return "events-tx"
	case strings.HasPrefix(p, "/blockflow/headers/"):
		return "headers"
	case p == "/blockflow/is-block-in-main-chain":
		return "is-main"
	case p == "/blockflow/chain-info":
		return "chain-info"
	case p == "/transactions/status":
		return "status"
	case p == "/contracts/multicall-contract":
		return "multicall"
	}
	return "unknown"
}

func (nd *anNode) ServeHTTP(w http.ResponseWriter, r *http.Request) {
	body, _ := io.ReadAll(r.Body)
	nd.mu.Lock()
	defer nd.mu.Unlock()
	if hr := anRouteOf(r.URL.Path); !nd.closed && len(nd.holdNx[hr]) > 0 {
		ms := nd.holdNx[hr][0]
		nd.holdNx[hr] = nd.holdNx[hr][1:]
		nd.lastAct = time.Now().Add(time.Duration(ms) * time.Millisecond)
		nd.mu.Unlock()
		time.Sleep(time.Duration(ms) * time.Millisecond)
		nd.mu.Lock()
	}
	if nd.closed {
		nd.writeJSON(w, 503, map[string]interface{}{"detail": "scenario over"})
		return
	}
	nd.drain()
	p := r.URL.Path
	q := r.URL.Query()
	route := ""
	a := map[string]interface{}{}
	code := 200
	var resp interface{}
	progress := false
	switch {
	case p == "/infos/version":
		route = "version"
		resp = map[string]interface{}{"version": "v2.5.6"}
		progress = true
	case p == "/infos/self-clique":
		route = "clique"
		a["synced"] = true
		resp = map[string]interface{}{"cliqueId": "00", "nodes": []interface{}{}, "selfReady": true, "synced": true}
		progress = true
	case strings.HasPrefix(p, "/events/contract/") && strings.HasSuffix(p, "/current-count"):
		route = "count"
		a["c"] = len(nd.stream)
		resp = len(nd.stream)
	case strings.HasPrefix(p, "/events/contract/"):
		route = "page"
		start, _ := strconv.Atoi(q.Get("start"))
		a["start"] = start
		a["addrok"] = strings.TrimPrefix(p, "/events/contract/") == nd.govAddr
		evs := []*anEvent{}
		for i := start; i < len(nd.stream) && i < start+nd.sc.Page && i >= 0; i++ {
			evs = append(evs, nd.stream[i])
		}
		js := []interface{}{}
		for _, e := range evs {
			js = append(js, nd.eventJSON(e, false))
		}
		a["evs"] = nd.abstractList(evs)
		a["next"] = start + len(evs)
		resp = map[string]interface{}{"events": js, "nextStart": start + len(evs)}
		progress = true
		key := fmt.Sprint("page|", start)
		if key == nd.spinKey {
			nd.spinN++
		} else {
			nd.spinKey, nd.spinN = key, 1
		}
	case strings.HasPrefix(p, "/events/tx-id/"):
		route = "events-tx"
		tx := nd.txOf(strings.TrimPrefix(p, "/events/tx-id/"))
		a["tx"] = tx
		evs := []*anEvent{}
		for _, l := range [][]*anEvent{nd.stream, nd.foreign} {
			for _, e := range l {
				if e.Tx == tx {
					evs = append(evs, e)
				}
			}
		}
		// foreign look-alikes come first when their id is smaller (emission order inside the tx)
		for i := 1; i < len(evs); i++ {
			for j := i; j > 0 && evs[j].ID < evs[j-1].ID; j-- {
				evs[j], evs[j-1] = evs[j-1], evs[j]
			}
		}
		js := []interface{}{}
		for _, e := range evs {
			js = append(js, nd.eventJSON(e, true))
		}
		a["evs"] = nd.abstractList(evs)
		resp = map[string]interface{}{"events": js}
		progress = true
	case strings.HasPrefix(p, "/blockflow/headers/"):
		route = "headers"
		b := nd.blockOf(strings.TrimPrefix(p, "/blockflow/headers/"))
		a["b"] = b
		if blk, ok := nd.blocks[b]; ok {
			a["hd"] = map[string]interface{}{"height": blk.height, "ts": blk.ts}
			resp = map[string]interface{}{"hash": nd.blockHash(b), "timestamp": nd.tsMillis(blk), "chainFrom": 0, "chainTo": 0,
				"height": blk.height, "deps": []interface{}{}}
		} else {
			code, resp = 404, map[string]interface{}{"resource": "block", "detail": "not found"}
		}
	case p == "/blockflow/is-block-in-main-chain":
		route = "is-main"
		b := nd.blockOf(q.Get("blockHash"))
		a["b"] = b
		if blk, ok := nd.blocks[b]; ok {
			a["r"] = blk.main
			resp = blk.main
		} else {
			code, resp = 404, map[string]interface{}{"resource": "block", "detail": "not found"}
		}
	case p == "/blockflow/chain-info":
		route = "chain-info"
		a["h"] = nd.height
		resp = map[string]interface{}{"currentHeight": nd.height}
	case p == "/transactions/status":
		route = "status"
		tx := nd.txOf(q.Get("txId"))
		a["tx"] = tx
		blk := -1
		for _, l := range [][]*anEvent{nd.stream, nd.foreign} {
			for _, e := range l {
				if e.Tx == tx && nd.blocks[e.Blk].main {
					blk = e.Blk
				}
			}
		}
		a["conf"], a["blk"] = blk >= 0, blk
		if blk >= 0 {
			resp = map[string]interface{}{"type": "Confirmed", "blockHash": nd.blockHash(blk), "txIndex": 0, "chainConfirmations": 1,
				"fromGroupConfirmations": 1, "toGroupConfirmations": 1}
		} else {
			resp = map[string]interface{}{"type": "TxNotFound"}
		}
		progress = true
	case p == "/contracts/multicall-contract":
		route = "multicall"
		var req struct {
			Calls []struct {
				Address     string `json:"address"`
				MethodIndex int    `json:"methodIndex"`
			} `json:"calls"`
		}
		json.Unmarshal(body, &req)
		name := "?"
		if len(req.Calls) > 0 {
			names := map[string]bool{}
			for n := range nd.tok {
				names[n] = true
			}
			for _, e := range nd.byID {
				names[e.Tok] = true
			}
			for n := range names {
				tid := anTokID(n)
				if ad, err := ToContractAddress(tid.ToHex()); err == nil && *ad == req.Calls[0].Address {
					name = n
				}
			}
		}
		a["id"] = name
		a["ncalls"] = len(req.Calls)
		var ans string
		code, resp, ans = nd.multicall(name)
		a["ans"] = ans
		progress = true
	default:
		route = "unknown"
		a["path"] = p
		code, resp = 404, map[string]interface{}{"detail": "no such route"}
	}
	a["route"] = route
	if nd.failNx[route] > 0 && route != "multicall" {
		nd.failNx[route]--
		code, resp = 500, map[string]interface{}{"detail": "scripted failure"}
	}
	a["fail"] = code != 200 && route != "multicall"
	if route != "page" && route != "multicall" && route != "headers" && route != "is-main" && route != "chain-info" {
		nd.spinKey, nd.spinN = "", 0
	}
	nd.served[route]++
	nd.log("Req", a)
	if progress || code != 200 {
		nd.lastAct = time.Now()
	}
	if nd.spinN >= 50 {
		nd.spun = true
	}
	// scripted environment changes triggered by this request
	for nd.next < len(nd.sc.Steps) {
		st := nd.sc.Steps[nd.next]
		if st.After == nil || st.After.Route != route || nd.served[route] < st.After.Nth {
			break
		}
		nd.fire()
	}
	nd.writeJSON(w, code, resp)
}

// ---------------------------------------------------------------- one scenario

func anRunScenario(t *testing.T, sc *anScenario, tr *anTrace) {
	if sc.Page < 1 {
		sc.Page = 2
	}
	if sc.PollMs < 1 {
		sc.PollMs = 3
	}
	if sc.DeadlineMs < 1 {
		sc.DeadlineMs = 5000
	}
	if sc.SettleMs < 1 {
		sc.SettleMs = 120
	}
	if sc.IdleMs < 1 {
		sc.IdleMs = 60
	}
	nd := &anNode{sc: sc, tr: tr, t0: time.Now().Truncate(time.Second), blocks: map[int]*anBlock{}, byID: map[int]*anEvent{},
		tok: map[string]string{}, failNx: map[string]int{}, holdNx: map[string][]int{}, served: map[string]int{}, seen: map[int]int{},
		msgC: make(chan *common.MessagePublication, 4096), obsvC: make(chan *gossipv1.ObservationRequest, 64)}
	g := anHash("governance")
	tb := anHash("tokenbridge")
	fo := anHash("somebody-else")
	copy(nd.govID[:], g[:])
	copy(nd.tbID[:], tb[:])
	copy(nd.foreignID[:], fo[:])
	nd.govID[31], nd.tbID[31], nd.foreignID[31] = 0, 0, 0
	ga, _ := ToContractAddress(nd.govID.ToHex())
	nd.govAddr = *ga

	nd.mu.Lock()
	nd.log("Reset", map[string]interface{}{"mainnet": sc.Mainnet, "page": sc.Page})
	for _, op := range sc.Pre {
		nd.apply(op)
	}
	nd.armedAt = time.Now()
	nd.lastAct = time.Now()
	nd.mu.Unlock()

	srv := httptest.NewServer(nd)
	defer srv.Close()

	cfg := &common.ChainConfig{GroupIndex: 0, Contracts: common.Contracts{Governance: nd.govID.ToHex(), TokenBridge: nd.tbID.ToHex()}}
	w, err := NewAlephiumWatcher(srv.URL, "", cfg, readiness.Component(fmt.Sprint("verif-alph-", sc.ID)), nd.msgC, uint(sc.PollMs), nd.obsvC, sc.Mainnet)
	if err != nil {
		t.Fatal(err)
	}
	ctx, cancel := context.WithCancel(context.Background())
	defer cancel()

	wrapped := func(ctx context.Context) error {
		nd.mu.Lock()
		if !nd.closed {
			nd.drain()
			nd.log("RunStart", nil)
			nd.lastAct = time.Now()
		}
		nd.mu.Unlock()
		cctx, ccancel := context.WithCancel(ctx)
		err := w.Run(cctx)
		nd.mu.Lock()
		if !nd.closed {
			nd.drain()
			msg := "nil"
			if err != nil {
				msg = err.Error()
			}
			nd.log("RunExit", map[string]interface{}{"err": msg})
			nd.exits++
			nd.lastAct = time.Now()
		}
		nd.mu.Unlock()
		ccancel() // the goroutines of this Run stop at their next context check; give them time before a restart
		time.Sleep(40 * time.Millisecond)
		return err
	}
	supervisor.New(ctx, zap.NewNop(), func(ctx context.Context) error {
		if err := supervisor.Run(ctx, "alphwatch", wrapped); err != nil {
			return err
		}
		supervisor.Signal(ctx, supervisor.SignalHealthy)
		<-ctx.Done()
		return ctx.Err()
	})

	start := time.Now()
	deadline := start.Add(time.Duration(sc.DeadlineMs) * time.Millisecond)
	for {
		time.Sleep(2 * time.Millisecond)
		nd.mu.Lock()
		nd.drain()
		now := time.Now()
		// a step without a trigger (or whose trigger did not come) fires once the watcher has had IdleMs
		if nd.next < len(nd.sc.Steps) {
			st := nd.sc.Steps[nd.next]
			wait := time.Duration(sc.IdleMs) * time.Millisecond
			if st.After != nil {
				wait = 10 * wait
			}
			if now.Sub(nd.armedAt) >= wait && now.Sub(nd.lastAct) >= time.Duration(sc.IdleMs)*time.Millisecond/2 {
				nd.fire()
			}
		}
		missing := []int{}
		for _, id := range sc.Expect {
			if nd.seen[id] == 0 {
				missing = append(missing, id)
			}
		}
		untaken := nd.reqValid - nd.served["status"]
		if untaken < 0 {
			untaken = 0
		}
		scriptDone := nd.next >= len(nd.sc.Steps)
		settled := now.Sub(nd.lastAct) >= time.Duration(sc.SettleMs)*time.Millisecond
		end := nd.spun || (scriptDone && settled && ((len(missing) == 0 && untaken == 0) || now.After(deadline))) ||
			now.After(deadline.Add(5*time.Second))
		if end {
			nd.log("End", map[string]interface{}{"missing": missing, "untaken": untaken, "spin": nd.spun, "scriptDone": scriptDone,
				"ms": int(now.Sub(start) / time.Millisecond), "exits": nd.exits})
			nd.closed = true
			nd.mu.Unlock()
			break
		}
		nd.mu.Unlock()
	}
	cancel()
	time.Sleep(5 * time.Millisecond)
}

func TestVerifAlphWatcher(t *testing.T) {
	in := os.Getenv("VERIF_SCENARIOS")
	out := os.Getenv("VERIF_TRACE")
	if in == "" || out == "" {
		t.Skip("VERIF_SCENARIOS / VERIF_TRACE not set")
	}
	skip, _ := strconv.Atoi(os.Getenv("VERIF_SKIP"))
	raw, err := os.ReadFile(in)
	if err != nil {
		t.Fatal(err)
	}
	f, err := os.OpenFile(out, os.O_APPEND|os.O_CREATE|os.O_WRONLY, 0644)
	if err != nil {
		t.Fatal(err)
	}
	defer f.Close()
	tr := &anTrace{f: f}
	k := 0
	for _, line := range strings.Split(string(raw), "\n") {
		if strings.TrimSpace(line) == "" {
			continue
		}
		k++
		if k <= skip {
			continue
		}
		var sc anScenario
		if err := json.Unmarshal([]byte(line), &sc); err != nil {
			t.Fatal(err)
		}
		anRunScenario(t, &sc, tr)
	}
	fmt.Println("VERIF-ALPH-DONE", k)
}
