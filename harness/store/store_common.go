package PKG

// Shared part of the Store.tla conformance harnesses (C12: store_c12.go in cmd/guardiand, C16: store_c16.go in
// pkg/db).  Injected via -overlay with the package clause rewritten; never exists under /repo.
//
// Abstract -> concrete mapping.  The specification (and every trace line) speaks about identifiers
// [ec, em, tc, seq] and tags; this file turns them into real chain ids, 32-byte emitter addresses, uint64
// sequences and correctly encoded VAAs (own codec: harness/common/vh.go), and turns what the code returns
// back into abstract values - by looking the returned bytes up among the byte strings that were generated,
// not by trusting any decoder of the code under test.

import (
	"crypto/sha256"
	"encoding/binary"
	"encoding/hex"
	"fmt"
	"strconv"
	"strings"
	"time"

	"github.com/alephium/wormhole-fork/node/pkg/vaa"
)

// abstract identifier
type shID struct {
	EC  int
	Em  string
	TC  int
	Seq int
}

func shIDFrom(m map[string]interface{}) shID {
	return shID{EC: vhInt(m, "ec", 0), Em: vhStr(m, "em"), TC: vhInt(m, "tc", 0), Seq: vhInt(m, "seq", 0)}
}

func (i shID) J() map[string]interface{} {
	return map[string]interface{}{"ec": i.EC, "em": i.Em, "tc": i.TC, "seq": i.Seq}
}

func (i shID) String() string { return fmt.Sprintf("%d/%s/%d/%d", i.EC, i.Em, i.TC, i.Seq) }

// Sequences are uint64 in the code and small naturals in the specification: abstract values below shBigBase map
// to themselves, shBigBase+k maps to shBig[k] (order preserving): boundary values of the 64-bit range and values
// whose decimal renderings are prefixes of each other.
const shBigBase = 1000

var shBig = []uint64{
	184467440737095516,   // a prefix of the rendering of 2^64-1
	1844674407370955161,  // a longer one
	1<<31 - 1 + 1<<61,    // arbitrary large
	1<<63 - 1,            // 9223372036854775807
	1 << 63,              // 9223372036854775808
	10000000000000000000, // 10^19, 20 digits
	1<<64 - 2,            //
	1<<64 - 1,            // 18446744073709551615
}

func shSeqC(a int) uint64 {
	if a >= shBigBase && a-shBigBase < len(shBig) {
		return shBig[a-shBigBase]
	}
	return uint64(a)
}

// shSeqA: concrete -> abstract; -1 when the value is outside the image of shSeqC.
func shSeqA(c uint64) int {
	if c < shBigBase {
		return int(c)
	}
	for k, b := range shBig {
		if b == c {
			return shBigBase + k
		}
	}
	return -1
}

// Emitter names -> 32-byte addresses.  "g" is the governance emitter of the repository's own tests (..04);
// "gx" differs from it in the last byte only; every other name is hashed.
func shAddr(em string) [32]byte {
	var a [32]byte
	switch em {
	case "g":
		a[31] = 4
	case "gx":
		a[31] = 5
	case "g0":
		a[31] = 0x40
	default:
		a = sha256.Sum256([]byte("verif-em|" + em))
	}
	return a
}

type shVal struct {
	ID  shID
	Tag string
}

type shWorld struct {
	byHash map[[32]byte]shVal
	ems    map[[32]byte]string
	keys   *vhKeys
}

// The VAAs of the store family carry genuine signatures of the keys s1..s4 at indexes 0..3 of the five-key set
// shSetNames (quorum 4): one to four of them, so most are NOT complete under that set.  The store itself never looks at
// signatures; a caller that decides by itself what to put into the store does.
var shSetNames = []string{"s1", "s2", "s3", "s4", "s5"}

func shNewWorld() *shWorld {
	w := &shWorld{byHash: map[[32]byte]shVal{}, ems: map[[32]byte]string{}, keys: vhNewKeys("store-world")}
	for _, n := range shSetNames {
		w.keys.Key(n) // created here, only read afterwards
	}
	return w
}

func (w *shWorld) addr(em string) [32]byte {
	a := shAddr(em)
	w.ems[a] = em
	return a
}

func (w *shWorld) emName(a [32]byte) string {
	if n, ok := w.ems[a]; ok {
		return n
	}
	return "?" + hex.EncodeToString(a[:4])
}

// build the VAA for (id, tag): every field except the identifier is a function of (id, tag); tags ending in
// "L" get a payload longer than 1000 bytes.  plen > 0 overrides the payload length (C16: large values).
func (w *shWorld) build(id shID, tag string, plen int) *vhVAA {
	// A tag ending in "S" is a sibling of the tag without it: the SAME message body (hence the same signing
	// digest) under another guardian set index and another signature list - what a node holds when it first
	// stores a peer's copy and later its own (or the other way round).
	bodyTag := strings.TrimSuffix(tag, "S")
	hs := sha256.Sum256([]byte(fmt.Sprintf("verif-vaa|%d|%s|%d|%d|%s", id.EC, id.Em, id.TC, id.Seq, tag)))
	h := sha256.Sum256([]byte(fmt.Sprintf("verif-vaa|%d|%s|%d|%d|%s", id.EC, id.Em, id.TC, id.Seq, bodyTag)))
	v := &vhVAA{Version: 1}
	v.SetIndex = uint32(hs[0] % 4)
	nsig := 1 + int(hs[1]%3)
	if tag != bodyTag {
		v.SetIndex = uint32(h[0]%4) + 1
		nsig = 1 + int(h[1]%3) + 1
	}
	for i := 0; i < nsig; i++ {
		s := vhSig{Index: uint8(i)}
		copy(s.Sig[:], vhExpand(fmt.Sprintf("sig|%x|%d", hs[:8], i), 65))
		v.Sigs = append(v.Sigs, s)
	}
	v.Ts = 1600000000 + uint32(binary.BigEndian.Uint16(h[2:4]))
	v.Nonce = binary.BigEndian.Uint32(h[4:8])
	v.EChain = uint16(id.EC)
	v.TChain = uint16(id.TC)
	v.Emitter = w.addr(id.Em)
	v.Seq = shSeqC(id.Seq)
	v.CL = h[8]
	if plen <= 0 {
		plen = 1 + int(binary.BigEndian.Uint16(h[9:11]))%400
		if strings.HasSuffix(tag, "L") {
			plen += 1000
		}
	}
	v.Payload = vhExpand(fmt.Sprintf("pl|%x", h[:12]), plen)
	if w.keys != nil {
		dg := v.Digest()
		for i := range v.Sigs {
			copy(v.Sigs[i].Sig[:], w.keys.Sign(shSetNames[i], dg))
		}
	}
	return v
}

// vaa registers the bytes of (id, tag) and returns the codec value.
func (w *shWorld) vaa(id shID, tag string, plen int) *vhVAA {
	v := w.build(id, tag, plen)
	w.byHash[sha256.Sum256(v.Encode())] = shVal{ID: id, Tag: tag}
	return v
}

// shToVAA fills the code's struct from the codec value (no decoder of the code under test involved).
func shToVAA(v *vhVAA) *vaa.VAA {
	r := &vaa.VAA{
		Version:          v.Version,
		GuardianSetIndex: v.SetIndex,
		Timestamp:        time.Unix(int64(v.Ts), 0),
		Nonce:            v.Nonce,
		Sequence:         v.Seq,
		ConsistencyLevel: v.CL,
		EmitterChain:     vaa.ChainID(v.EChain),
		TargetChain:      vaa.ChainID(v.TChain),
		EmitterAddress:   vaa.Address(v.Emitter),
		Payload:          v.Payload,
	}
	for _, s := range v.Sigs {
		r.Signatures = append(r.Signatures, &vaa.Signature{Index: s.Index, Signature: vaa.SignatureData(s.Sig)})
	}
	return r
}

func (w *shWorld) vaaID(id shID) vaa.VAAID {
	return vaa.VAAID{EmitterChain: vaa.ChainID(id.EC), EmitterAddress: vaa.Address(w.addr(id.Em)),
		TargetChain: vaa.ChainID(id.TC), Sequence: shSeqC(id.Seq)}
}

// classify returned bytes: the (id, tag) they were generated for; otherwise the identifier read with the own
// decoder and a tag that names the bytes ("?<hash>"), which no specification value equals.
func (w *shWorld) classify(b []byte) map[string]interface{} {
	h := sha256.Sum256(b)
	if v, ok := w.byHash[h]; ok {
		return map[string]interface{}{"id": v.ID.J(), "tag": v.Tag}
	}
	id := shID{EC: -1, Em: "?", TC: -1, Seq: -1}
	if d, err := vhDecode(b, true); err == nil {
		id = shID{EC: int(d.EChain), Em: w.emName(d.Emitter), TC: int(d.TChain), Seq: shSeqA(d.Seq)}
	}
	return map[string]interface{}{"id": id.J(), "tag": "?" + hex.EncodeToString(h[:6])}
}

// parse "ec/addrhex/tc/seq" (FindMissingMessages); ok=false when it is not of that form.
func (w *shWorld) parseMsgID(s string) (shID, uint64, bool) {
	p := strings.Split(s, "/")
	if len(p) != 4 {
		return shID{}, 0, false
	}
	ec, e1 := strconv.ParseUint(p[0], 10, 32)
	tc, e2 := strconv.ParseUint(p[2], 10, 32)
	sq, e3 := strconv.ParseUint(p[3], 10, 64)
	ab, e4 := hex.DecodeString(p[1])
	if e1 != nil || e2 != nil || e3 != nil || e4 != nil || len(ab) != 32 {
		return shID{}, 0, false
	}
	var a [32]byte
	copy(a[:], ab)
	return shID{EC: int(ec), Em: w.emName(a), TC: int(tc), Seq: shSeqA(sq)}, sq, true
}

func shSeqList(l []interface{}) ([]int, []uint64) {
	var as []int
	var cs []uint64
	for _, x := range l {
		a := int(x.(float64))
		as = append(as, a)
		cs = append(cs, shSeqC(a))
	}
	return as, cs
}

func shErrStr(err error) string {
	if err == nil {
		return ""
	}
	s := err.Error()
	if len(s) > 200 {
		s = s[:200]
	}
	if s == "" {
		s = "error"
	}
	return s
}
