package guardiand

// Conformance harness for Store.tla, property C12 (injected into cmd/guardiand, so that the unexported
// nodePrivilegedService is reachable; db.Database and publicrpc.PublicrpcServer are used through their exported
// API).  Every history (TLC behaviour of Gen_Store or seeded random history) is replayed on a fresh, real Badger
// directory; every call is logged with its arguments and what it returned; TLC validates each line against
// Store.tla (Trace_Store.tla).  Queries are issued through every layer that offers them:
//   Get          db.GetSignedVAABytes            PublicrpcServer.GetSignedVAA
//   Gap          db.FindEmitterSequenceGap       nodePrivilegedService.FindMissingMessages (no backfill)
//   GovBatch     db.GetGovernanceVAABatch        PublicrpcServer.GetGovernanceVAABatch
//   NonGovBatch                                  PublicrpcServer.GetNonGovernanceVAABatch
//   GapBackfill                                  nodePrivilegedService.FindMissingMessages with rpc_backfill against a
//                                                scripted backfill node (httptest) that delivers some gaps, answers 404 for
//                                                others and misbehaves (500 / connection reset / garbage) for chosen ones;
//                                                what the call injects into the node (signedInC) is stored like the
//                                                processor stores an inbound signed VAA

import (
	"unsafe"
	"reflect"
	"context"
	"crypto/sha256"
	"encoding/base64"
	"encoding/hex"
	"encoding/json"
	"fmt"
	"net/http"
	"net/http/httptest"
	"os"
	"path/filepath"
	"strconv"
	"strings"
	"sync"
	"testing"
	"time"

	"github.com/alephium/wormhole-fork/node/pkg/common"
	"github.com/alephium/wormhole-fork/node/pkg/db"
	gossipv1 "github.com/alephium/wormhole-fork/node/pkg/proto/gossip/v1"
	nodev1 "github.com/alephium/wormhole-fork/node/pkg/proto/node/v1"
	publicrpcv1 "github.com/alephium/wormhole-fork/node/pkg/proto/publicrpc/v1"
	"github.com/alephium/wormhole-fork/node/pkg/publicrpc"
	"github.com/alephium/wormhole-fork/node/pkg/vaa"
	"go.uber.org/zap"
	"google.golang.org/grpc/codes"
	"google.golang.org/grpc/status"
)

type scLine struct {
	ev string
	a  map[string]interface{}
	s  map[string]interface{}
}

type scRun struct {
	w     *shWorld
	d     *db.Database
	rpc   *publicrpc.PublicrpcServer
	admin *nodePrivilegedService
	ctx   context.Context
	lines []scLine
	holds []scHold
}

// scHold: the byte slices a call returned, kept until the end of the history and then identified once more
// (logged as "held" in the call's line): returned bytes must not change under later calls.
type scHold struct {
	line int
	bufs [][]byte
}

func (r *scRun) hold(bufs ...[]byte) {
	r.holds = append(r.holds, scHold{line: len(r.lines) - 1, bufs: bufs})
}

func (r *scRun) identifyHeld() {
	for _, h := range r.holds {
		held := []interface{}{}
		for _, b := range h.bufs {
			held = append(held, r.w.classify(b))
		}
		r.lines[h.line].s["held"] = held
	}
}

func (r *scRun) log(ev string, a, s map[string]interface{}) {
	if a == nil {
		a = map[string]interface{}{}
	}
	if s == nil {
		s = map[string]interface{}{}
	}
	r.lines = append(r.lines, scLine{ev, a, s})
}

// guard runs f and turns a panic into an error string.
func scGuard(f func() error) (errs string) {
	defer func() {
		if p := recover(); p != nil {
			errs = fmt.Sprintf("panic: %v", p)
			if len(errs) > 200 {
				errs = errs[:200]
			}
		}
	}()
	return shErrStr(f())
}

func (r *scRun) store(a map[string]interface{}) {
	vm := vhMap(a, "v")
	id, tag := shIDFrom(vhMap(vm, "id")), vhStr(vm, "tag")
	v := r.w.vaa(id, tag, 0)
	errs := scGuard(func() error { return r.d.StoreSignedVAA(shToVAA(v)) })
	r.log("Store", map[string]interface{}{"v": map[string]interface{}{"id": id.J(), "tag": tag}},
		map[string]interface{}{"err": errs, "len": len(v.Encode())})
}

// storeRun: a whole stream written at once - one StoreSignedVAA per sequence of the ranges, all with one tag
// (large stores: streams of hundreds of entries with equally large neighbours).
func (r *scRun) storeRun(a map[string]interface{}) {
	stm := vhMap(a, "st")
	st := shID{EC: vhInt(stm, "ec", 0), Em: vhStr(stm, "em"), TC: vhInt(stm, "tc", 0)}
	tag := vhStr(a, "tag")
	ranges := []interface{}{}
	n, errs := 0, ""
	for _, rg := range vhList(a, "ranges") {
		p, ok := rg.([]interface{})
		if !ok || len(p) != 2 {
			continue
		}
		lo, hi := int(p[0].(float64)), int(p[1].(float64))
		ranges = append(ranges, []int{lo, hi})
		for q := lo; q <= hi && errs == ""; q++ {
			id := st
			id.Seq = q
			v := r.w.vaa(id, tag, 0)
			errs = scGuard(func() error { return r.d.StoreSignedVAA(shToVAA(v)) })
			n++
		}
	}
	r.log("StoreRun", map[string]interface{}{"st": map[string]interface{}{"ec": st.EC, "em": st.Em, "tc": st.TC}, "tag": tag, "ranges": ranges},
		map[string]interface{}{"err": errs, "n": n})
}

func (r *scRun) optVal(b []byte, found bool) []interface{} {
	if !found {
		return []interface{}{}
	}
	return []interface{}{r.w.classify(b)}
}

func (r *scRun) get(a map[string]interface{}) {
	id := shIDFrom(vhMap(a, "id"))
	vid := r.w.vaaID(id)
	// db
	{
		var b []byte
		code := "OK"
		errs := scGuard(func() error {
			var err error
			b, err = r.d.GetSignedVAABytes(vid)
			if err == db.ErrVAANotFound {
				code = "NotFound"
				return nil
			}
			if err != nil {
				code = "Error"
			}
			return err
		})
		r.log("Get", map[string]interface{}{"id": id.J(), "via": "db"},
			map[string]interface{}{"err": errs, "code": code, "res": r.optVal(b, errs == "" && code == "OK")})
		if errs == "" && code == "OK" {
			r.hold(b)
		} else {
			r.hold()
		}
	}
	// public RPC
	{
		var b []byte
		code := "OK"
		errs := scGuard(func() error {
			resp, err := r.rpc.GetSignedVAA(r.ctx, &publicrpcv1.GetSignedVAARequest{MessageId: &publicrpcv1.MessageID{
				EmitterChain:   publicrpcv1.ChainID(id.EC),
				EmitterAddress: hex.EncodeToString(vid.EmitterAddress[:]),
				TargetChain:    publicrpcv1.ChainID(id.TC),
				Sequence:       vid.Sequence,
			}})
			code = status.Code(err).String()
			if status.Code(err) == codes.NotFound {
				return nil
			}
			if err == nil {
				b = resp.VaaBytes
			}
			return err
		})
		r.log("Get", map[string]interface{}{"id": id.J(), "via": "rpc"},
			map[string]interface{}{"err": errs, "code": code, "res": r.optVal(b, errs == "" && code == "OK")})
		if errs == "" && code == "OK" {
			r.hold(b)
		} else {
			r.hold()
		}
	}
}

func scSeqs(cs []uint64) ([]int, bool) {
	as := make([]int, 0, len(cs))
	unmapped := false
	for _, c := range cs {
		a := shSeqA(c)
		if a < 0 {
			unmapped = true
		}
		as = append(as, a)
	}
	return as, unmapped
}

func (r *scRun) gap(a map[string]interface{}) {
	stm := vhMap(a, "st")
	st := shID{EC: vhInt(stm, "ec", 0), Em: vhStr(stm, "em"), TC: vhInt(stm, "tc", 0)}
	stJ := map[string]interface{}{"ec": st.EC, "em": st.Em, "tc": st.TC}
	vid := r.w.vaaID(st)
	// db
	{
		var miss []uint64
		var first, last uint64
		errs := scGuard(func() error {
			var err error
			miss, first, last, err = r.d.FindEmitterSequenceGap(vaa.VAAID{EmitterChain: vid.EmitterChain,
				EmitterAddress: vid.EmitterAddress, TargetChain: vid.TargetChain})
			return err
		})
		as, un := scSeqs(miss)
		s := map[string]interface{}{"err": errs, "badid": false, "missing": as, "first": shSeqA(first), "last": shSeqA(last)}
		if un {
			s["raw"] = fmt.Sprint(miss)
		}
		r.log("Gap", map[string]interface{}{"st": stJ, "via": "db"}, s)
	}
	// admin service, no backfill
	{
		var resp *nodev1.FindMissingMessagesResponse
		errs := scGuard(func() error {
			var err error
			resp, err = r.admin.FindMissingMessages(r.ctx, &nodev1.FindMissingMessagesRequest{
				EmitterChain: uint32(st.EC), TargetChain: uint32(st.TC),
				EmitterAddress: hex.EncodeToString(vid.EmitterAddress[:]), RpcBackfill: false})
			return err
		})
		as := []int{}
		bad := false
		first, last := 0, 0
		if errs == "" && resp != nil {
			for _, m := range resp.MissingMessages {
				id, _, ok := r.w.parseMsgID(m)
				if !ok || id.EC != st.EC || id.Em != st.Em || id.TC != st.TC {
					bad = true
					continue
				}
				as = append(as, id.Seq)
			}
			first, last = shSeqA(resp.FirstSequence), shSeqA(resp.LastSequence)
		}
		r.log("Gap", map[string]interface{}{"st": stJ, "via": "admin"},
			map[string]interface{}{"err": errs, "badid": bad, "missing": as, "first": first, "last": last})
	}
}

func (r *scRun) entry(b []byte, seq uint64, tc int) map[string]interface{} {
	e := r.w.classify(b)
	e["seq"] = shSeqA(seq)
	if tc >= 0 {
		e["tc"] = tc
	}
	return e
}

func (r *scRun) govBatch(a map[string]interface{}) {
	as, cs := shSeqList(vhList(a, "seqs"))
	if as == nil {
		as, cs = []int{}, []uint64{}
	}
	ga := r.w.addr("g")
	// db
	{
		entries := []interface{}{}
		var bufs [][]byte
		errs := scGuard(func() error {
			res, err := r.d.GetGovernanceVAABatch(scGovChain, vaa.Address(ga), cs)
			for _, g := range res {
				entries = append(entries, r.entry(g.VaaBytes, g.Sequence, int(g.TargetChain)))
				bufs = append(bufs, g.VaaBytes)
			}
			return err
		})
		r.log("GovBatch", map[string]interface{}{"seqs": as, "via": "db"}, map[string]interface{}{"err": errs, "entries": entries})
		r.hold(bufs...)
	}
	// public RPC
	{
		entries := []interface{}{}
		var bufs [][]byte
		errs := scGuard(func() error {
			resp, err := r.rpc.GetGovernanceVAABatch(r.ctx, &publicrpcv1.GetGovernanceVAABatchRequest{Sequences: cs})
			if err == nil {
				for _, g := range resp.Entries {
					entries = append(entries, r.entry(g.VaaBytes, g.Sequence, int(g.TargetChain.Number())))
					bufs = append(bufs, g.VaaBytes)
				}
			}
			return err
		})
		r.log("GovBatch", map[string]interface{}{"seqs": as, "via": "rpc"}, map[string]interface{}{"err": errs, "entries": entries})
		r.hold(bufs...)
	}
}

func (r *scRun) nonGovBatch(a map[string]interface{}) {
	stm := vhMap(a, "st")
	st := shID{EC: vhInt(stm, "ec", 0), Em: vhStr(stm, "em"), TC: vhInt(stm, "tc", 0)}
	stJ := map[string]interface{}{"ec": st.EC, "em": st.Em, "tc": st.TC}
	vid := r.w.vaaID(st)
	as, cs := shSeqList(vhList(a, "seqs"))
	if as == nil {
		as, cs = []int{}, []uint64{}
	}
	entries := []interface{}{}
	var bufs [][]byte
	errs := scGuard(func() error {
		resp, err := r.rpc.GetNonGovernanceVAABatch(r.ctx, &publicrpcv1.GetNonGovernanceVAABatchRequest{
			EmitterChain: publicrpcv1.ChainID(st.EC), EmitterAddress: hex.EncodeToString(vid.EmitterAddress[:]),
			TargetChain: publicrpcv1.ChainID(st.TC), Sequences: cs})
		if err == nil {
			for _, g := range resp.Entries {
				entries = append(entries, r.entry(g.VaaBytes, g.Sequence, -1))
				bufs = append(bufs, g.VaaBytes)
			}
		}
		return err
	})
	r.log("NonGovBatch", map[string]interface{}{"st": stJ, "seqs": as, "via": "rpc"}, map[string]interface{}{"err": errs, "entries": entries})
	r.hold(bufs...)
}

const scGovChain = vaa.ChainID(1)

// ---------------------------------------------------------------- backfill

// scBackfill: the fake public REST API of another guardian, GET <node>/v1/signed_vaa/<ec>/<addr>/<tc>/<seq>, scripted
// per call by plan: abstract sequence -> "ok" | "404" | "500" | "reset" | "garbage" | "badb64" (default "404").
type scBackfill struct {
	mu       sync.Mutex
	w        *shWorld
	st       shID
	plan     map[int]string
	served   []shVal // what was delivered with 200
	requests int
	srv      *httptest.Server
}

func (f *scBackfill) ServeHTTP(rw http.ResponseWriter, req *http.Request) {
	f.mu.Lock()
	defer f.mu.Unlock()
	f.requests++
	path := strings.TrimPrefix(req.URL.Path, "/b") // the same node under a second URL
	id, _, ok := f.w.parseMsgID(strings.TrimPrefix(path, "/v1/signed_vaa/"))
	if !strings.HasPrefix(path, "/v1/signed_vaa/") || !ok || id.EC != f.st.EC || id.Em != f.st.Em || id.TC != f.st.TC {
		rw.WriteHeader(http.StatusNotFound) // not a gap of the stream asked about: this node does not have it
		return
	}
	switch f.plan[id.Seq] {
	case "ok":
		tag := "bf"
		v := f.w.vaa(id, tag, 0)
		f.served = append(f.served, shVal{ID: id, Tag: tag})
		b, _ := json.Marshal(map[string]string{"vaaBytes": base64.StdEncoding.EncodeToString(v.Encode())})
		rw.Header().Set("Content-Type", "application/json")
		rw.Write(b)
	case "500":
		rw.WriteHeader(http.StatusInternalServerError)
	case "reset":
		if hj, ok := rw.(http.Hijacker); ok {
			if c, _, err := hj.Hijack(); err == nil {
				c.Close()
				return
			}
		}
		rw.WriteHeader(http.StatusNotFound)
	case "garbage":
		rw.Write([]byte("<html>certainly not json"))
	case "badb64":
		rw.Write([]byte(`{"vaaBytes":"!!! not base64 !!!"}`))
	default:
		rw.WriteHeader(http.StatusNotFound)
	}
}

func (r *scRun) gapBackfill(a map[string]interface{}) {
	stm := vhMap(a, "st")
	st := shID{EC: vhInt(stm, "ec", 0), Em: vhStr(stm, "em"), TC: vhInt(stm, "tc", 0)}
	stJ := map[string]interface{}{"ec": st.EC, "em": st.Em, "tc": st.TC}
	vid := r.w.vaaID(st)
	plan := map[int]string{}
	planJ := map[string]interface{}{}
	for k, v := range vhMap(a, "plan") {
		if n, err := strconv.Atoi(k); err == nil {
			plan[n] = fmt.Sprint(v)
			planJ[k] = fmt.Sprint(v)
		}
	}
	f := &scBackfill{w: r.w, st: st, plan: plan}
	f.srv = httptest.NewServer(f)
	defer f.srv.Close()

	// the node side of the injection: what FindMissingMessages hands to signedInC is stored (the processor's job;
	// signatures are not checked here), decoded with the harness's own codec
	in := make(chan *gossipv1.SignedVAAWithQuorum)
	var got, stored int
	injected := []interface{}{} // what the call handed to the processor's inbound channel: the only way it may fill the store
	var inMu sync.Mutex
	stop := make(chan struct{})
	var wg sync.WaitGroup
	wg.Add(1)
	go func() {
		defer wg.Done()
		for {
			select {
			case m := <-in:
				inMu.Lock()
				got++
				if sv, ok := r.w.byHash[sha256.Sum256(m.Vaa)]; ok {
					injected = append(injected, map[string]interface{}{"id": sv.ID.J(), "tag": sv.Tag})
				}
				inMu.Unlock()
				if v, err := vhDecode(m.Vaa, true); err == nil && len(v.Sigs) > 0 {
					r.d.StoreSignedVAA(shToVAA(v))
				}
				inMu.Lock()
				stored++
				inMu.Unlock()
			case <-stop:
				return
			}
		}
	}()
	r.admin.signedInC = in
	var resp *nodev1.FindMissingMessagesResponse
	code := "OK"
	errs := scGuard(func() error {
		var err error
		resp, err = r.admin.FindMissingMessages(r.ctx, &nodev1.FindMissingMessagesRequest{
			EmitterChain: uint32(st.EC), TargetChain: uint32(st.TC), EmitterAddress: hex.EncodeToString(vid.EmitterAddress[:]),
			RpcBackfill: true, BackfillNodes: []string{f.srv.URL, f.srv.URL + "/b"}})
		code = status.Code(err).String()
		return err
	})
	// every injection has been received when the call returns (unbuffered channel); wait until it is stored too
	for i := 0; i < 20000; i++ {
		inMu.Lock()
		done := got == stored
		inMu.Unlock()
		if done {
			break
		}
		time.Sleep(50 * time.Microsecond)
	}
	close(stop)
	wg.Wait()
	r.admin.signedInC = nil

	f.mu.Lock()
	servedV, requests := f.served, f.requests
	f.mu.Unlock()
	// really filled = what the store now holds under the identifiers the backfill node delivered, if it is those bytes
	served := []interface{}{}
	fills := []interface{}{}
	seen := map[shID]bool{}
	for _, sv := range servedV {
		if seen[sv.ID] {
			continue
		}
		seen[sv.ID] = true
		served = append(served, map[string]interface{}{"id": sv.ID.J(), "tag": sv.Tag})
		if b, err := r.d.GetSignedVAABytes(r.w.vaaID(sv.ID)); err == nil {
			if have, ok := r.w.byHash[sha256.Sum256(b)]; ok && have == sv {
				fills = append(fills, map[string]interface{}{"id": sv.ID.J(), "tag": sv.Tag})
			}
		}
	}
	as := []int{}
	bad := false
	first, last := 0, 0
	if errs == "" && resp != nil {
		for _, m := range resp.MissingMessages {
			id, _, ok := r.w.parseMsgID(m)
			if !ok || id.EC != st.EC || id.Em != st.Em || id.TC != st.TC {
				bad = true
				continue
			}
			as = append(as, id.Seq)
		}
		first, last = shSeqA(resp.FirstSequence), shSeqA(resp.LastSequence)
	}
	r.log("GapBackfill", map[string]interface{}{"st": stJ, "via": "admin", "plan": planJ, "fills": fills, "served": served, "injected": injected, "requests": requests},
		map[string]interface{}{"err": errs, "code": code, "badid": bad, "missing": as, "first": first, "last": last})
}

func scRunScenario(base string, sc vhScenario) ([]scLine, error) {
	dir := filepath.Join(base, "s"+strconv.Itoa(sc.ID))
	if err := os.MkdirAll(dir, 0o755); err != nil {
		return nil, err
	}
	defer os.RemoveAll(dir)
	d, err := db.Open(dir)
	if err != nil {
		return nil, err
	}
	defer d.Close()
	w := shNewWorld()
	ga := w.addr("g")
	r := &scRun{w: w, d: d, ctx: context.Background()}
	r.rpc = publicrpc.NewPublicrpcServer(zap.NewNop(), d, common.NewGuardianSetState(nil), scGovChain, vaa.Address(ga))
	r.admin = &nodePrivilegedService{db: d, logger: zap.NewNop(), governanceChainId: scGovChain, governanceEmitterAddress: vaa.Address(ga)}
	// an admin service that knows the guardian set (should one ever have such a field): the five-key set of the world
	if f := reflect.ValueOf(r.admin).Elem().FieldByName("gst"); f.IsValid() && f.Type() == reflect.TypeOf((*common.GuardianSetState)(nil)) {
		gst := common.NewGuardianSetState(nil)
		gs := &common.GuardianSet{Index: 0}
		for _, n := range shSetNames {
			gs.Keys = append(gs.Keys, w.keys.Addr(n))
		}
		gst.Set(gs)
		reflect.NewAt(f.Type(), unsafe.Pointer(f.UnsafeAddr())).Elem().Set(reflect.ValueOf(gst))
	}
	r.log("Reset", map[string]interface{}{"ids": []interface{}{}}, nil)
	for _, st := range sc.Steps {
		switch st.Ev {
		case "Store":
			r.store(st.A)
		case "StoreRun":
			r.storeRun(st.A)
		case "Get":
			r.get(st.A)
		case "Gap":
			r.gap(st.A)
		case "GapBackfill":
			r.gapBackfill(st.A)
		case "GovBatch":
			r.govBatch(st.A)
		case "NonGovBatch":
			r.nonGovBatch(st.A)
		default:
			return nil, fmt.Errorf("unknown step %q", st.Ev)
		}
	}
	r.identifyHeld()
	return r.lines, nil
}

func TestVerifStoreReplay(t *testing.T) {
	scPath, trPath := os.Getenv("VERIF_SCENARIOS"), os.Getenv("VERIF_TRACE")
	if scPath == "" || trPath == "" {
		t.Skip("VERIF_SCENARIOS / VERIF_TRACE not set")
	}
	scs, err := vhLoadScenarios(scPath)
	if err != nil {
		t.Fatal(err)
	}
	tr, err := vhOpenTrace(trPath)
	if err != nil {
		t.Fatal(err)
	}
	defer tr.Close()
	// db.go prints every missing sequence on stdout; keep the test output small
	realOut := os.Stdout
	if null, err := os.OpenFile(os.DevNull, os.O_WRONLY, 0); err == nil {
		os.Stdout = null
		defer func() { os.Stdout = realOut }()
	}
	base := t.TempDir()
	workers := 4
	if n, err := strconv.Atoi(os.Getenv("VERIF_WORKERS")); err == nil && n > 0 {
		workers = n
	}
	var flush sync.Mutex
	var wg sync.WaitGroup
	next := make(chan vhScenario)
	var firstErr error
	calls := 0
	for i := 0; i < workers; i++ {
		wg.Add(1)
		go func() {
			defer wg.Done()
			for sc := range next {
				lines, err := scRunScenario(base, sc)
				flush.Lock()
				if err != nil && firstErr == nil {
					firstErr = fmt.Errorf("scenario %d: %w", sc.ID, err)
				}
				for _, ln := range lines { // the lines of one history stay contiguous
					tr.Emit(sc.ID, ln.ev, ln.a, ln.s)
					calls++
				}
				flush.Unlock()
			}
		}()
	}
	for _, sc := range scs {
		next <- sc
	}
	close(next)
	wg.Wait()
	if firstErr != nil {
		fmt.Fprintf(realOut, "VERIF-HARNESS-ERROR %v\n", firstErr)
		t.Fatal(firstErr)
	}
	fmt.Fprintf(realOut, "VERIF-REPLAYED scenarios=%d lines=%d\n", len(scs), calls)
}
