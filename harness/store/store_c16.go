package db

// Conformance harness for Store.tla, property C16 (injected into pkg/db).  The test binary re-executes itself
// as a child process that opens a Badger directory with Open, stores a seeded stream of real VAAs through
// StoreSignedVAA and prints one acknowledgement line per store that returned nil.  The parent SIGKILLs the
// child at seeded instants (while it is opening the store, a few milliseconds later, after many writes, or
// exactly when a given acknowledgement arrives), reopens the same directory, reads every identifier, closes it
// and starts the next cycle on the same directory.  The history Reopen / StoreAcked / Store / Kill / Reopen /
// Get ... / Close is written as a trace that TLC validates against Store.tla (Crash: acknowledged writes survive,
// unacknowledged ones may or may not; a lookup returns nothing or bytes stored under that identifier; the
// store reopens).
//
// A child that cannot be started or killed, or whose StoreSignedVAA reports an error (disk full ...), makes
// the check undecided (VERIF-BROKEN), never a violation.

import (
	"bufio"
	"crypto/sha256"
	"encoding/binary"
	"fmt"
	"math"
	"math/rand"
	"os"
	"os/exec"
	"path/filepath"
	"sort"
	"strconv"
	"strings"
	"sync"
	"testing"
	"time"

	"github.com/alephium/wormhole-fork/node/pkg/vaa"
)

const (
	c16Stored  = 40 // identifiers the child writes to
	c16Never   = 4  // identifiers never written (lookups must stay not-found)
	c16Tags    = 8  // versions per identifier ("w0".."w7", cyclic)
	c16Chunk   = 64 // acknowledged stores packed per trace line
	c16Timeout = 120 * time.Second
	// a store on a closed store returns in microseconds; 20 s is > 10^5 times that
	c16StallTimeout = 20 * time.Second
)

// identifier table of a directory: streams whose target chains render as prefixes of each other.
func c16Ids(dirSeed int64) []shID {
	rnd := rand.New(rand.NewSource(dirSeed*7919 + 17))
	ems := []struct {
		ec int
		em string
	}{{1, "g"}, {10, "g"}, {1, "h"}, {4, "k"}}
	tcs := []int{2, 25, 255, 4, 42, 1, 10, 0}
	seqs := []int{0, 1, 2, 3, 10, 11, 12, 100, shBigBase + 6, shBigBase + 7}
	seen := map[shID]bool{}
	var ids []shID
	for len(ids) < c16Stored+c16Never {
		e := ems[rnd.Intn(len(ems))]
		id := shID{EC: e.ec, Em: e.em, TC: tcs[rnd.Intn(len(tcs))], Seq: seqs[rnd.Intn(len(seqs))]}
		if !seen[id] {
			seen[id] = true
			ids = append(ids, id)
		}
	}
	return ids
}

func c16Tag(i int) string { return "w" + strconv.Itoa(i%c16Tags) }

// Versions.  Tags w0..w7; (w0,w1), (w2,w3), ... are PAIRS: the two versions of a pair written in one cycle carry the
// same message body (timestamp, nonce, consistency level, payload) under another guardian set index and other
// signature bytes, with the same number of signatures - the re-store the comment in db.StoreSignedVAA expects (own
// quorum vs. gossip), and exactly as long as the entry it replaces.  The length of a version (payload length, number
// of signatures) depends on the identifier and the pair only, not on the cycle, so a version written in a later cycle
// is also as long as the same pair's versions of earlier cycles while all its bytes differ.  Versions of different
// pairs have different lengths.  The cycle is woven into every variable field, so that the parent can tell from
// returned bytes in which cycle they were written (logged as "wc").
func c16Pair(tag string) int {
	t, _ := strconv.Atoi(strings.TrimPrefix(tag, "w"))
	return t / 2
}

// payload length / signature count of (id, pair): mostly small payloads, some a few KB, some tens of KB (memtable
// flushes / compactions happen after a few thousand writes).
func c16Shape(id shID, pair int) (plen int, nsig int) {
	h := sha256.Sum256([]byte(fmt.Sprintf("shape|%s|%d", id.String(), pair)))
	x := int(binary.BigEndian.Uint32(h[0:4]))
	switch c := h[4] % 10; {
	case c < 7:
		plen = 40 + x%560
	case c < 9:
		plen = 2000 + x%6000
	default:
		plen = 20000 + x%40000
	}
	return plen + pair, 1 + int(h[5]%3) // + pair: no two pairs of one identifier share a length by accident
}

func c16Build(w *shWorld, id shID, tag string, cycle int) *vhVAA {
	plen, nsig := c16Shape(id, c16Pair(tag))
	hb := sha256.Sum256([]byte(fmt.Sprintf("c16body|%s|%d|%d", id.String(), c16Pair(tag), cycle)))
	hs := sha256.Sum256([]byte(fmt.Sprintf("c16sigs|%s|%s|%d", id.String(), tag, cycle)))
	v := &vhVAA{Version: 1}
	v.SetIndex = binary.BigEndian.Uint32(hs[0:4])
	for i := 0; i < nsig; i++ {
		sg := vhSig{Index: uint8(i)}
		copy(sg.Sig[:], vhExpand(fmt.Sprintf("sig|%x|%d", hs[:12], i), 65))
		v.Sigs = append(v.Sigs, sg)
	}
	v.Ts = 1600000000 + uint32(binary.BigEndian.Uint16(hb[2:4]))
	v.Nonce = binary.BigEndian.Uint32(hb[4:8])
	v.EChain = uint16(id.EC)
	v.TChain = uint16(id.TC)
	v.Emitter = w.addr(id.Em)
	v.Seq = shSeqC(id.Seq)
	v.CL = hb[8]
	v.Payload = vhExpand(fmt.Sprintf("pl|%x", hb[:12]), plen)
	return v
}

// the child's stream: position n of cycle c -> (index into the identifier table, tag).
type c16Stream struct {
	rnd   *rand.Rand
	cycle int
	occ   map[int]int
}

func c16NewStream(dirSeed int64, cycle int) *c16Stream {
	return &c16Stream{rnd: rand.New(rand.NewSource(dirSeed*1000003 + int64(cycle)*101 + 5)), cycle: cycle, occ: map[int]int{}}
}

func (s *c16Stream) next() (int, string) {
	var k int
	if s.rnd.Intn(4) == 0 {
		k = s.rnd.Intn(4) // a few hot identifiers: many overwrites
	} else {
		k = s.rnd.Intn(c16Stored)
	}
	t := c16Tag(s.cycle*3 + s.occ[k])
	s.occ[k]++
	return k, t
}

// ---------------------------------------------------------------- child

func TestVerifStoreChild(t *testing.T) {
	dir := os.Getenv("VERIF_C16_CHILD_DIR")
	if dir == "" {
		t.Skip("not a child")
	}
	out := os.Stdout
	say := func(s string) { out.WriteString("@@" + s + "\n") } // one write(2) per line
	dirSeed, _ := strconv.ParseInt(os.Getenv("VERIF_C16_DIRSEED"), 10, 64)
	cycle, _ := strconv.Atoi(os.Getenv("VERIF_C16_CYCLE"))
	max, _ := strconv.Atoi(os.Getenv("VERIF_C16_MAX"))
	ids := c16Ids(dirSeed)
	w := shNewWorld()
	st := c16NewStream(dirSeed, cycle)
	say("START")
	d, err := Open(dir)
	if err != nil {
		say("OPENFAIL " + strings.ReplaceAll(err.Error(), "\n", " "))
		os.Exit(3)
	}
	say("OPENED")
	for n := 0; n < max; n++ {
		k, tag := st.next()
		v := c16Build(w, ids[k], tag, cycle)
		if err := d.StoreSignedVAA(shToVAA(v)); err != nil {
			say("STOREFAIL " + strconv.Itoa(n) + " " + strings.ReplaceAll(err.Error(), "\n", " "))
			os.Exit(4)
		}
		say("A " + strconv.Itoa(n)) // the acknowledgement: StoreSignedVAA returned nil
	}
	say("DONE")
	select {} // wait for the kill
}

// ---------------------------------------------------------------- parent

type c16Child struct {
	cmd *exec.Cmd
	mu  sync.Mutex
	// protocol state
	started, opened, done, eof bool
	openFail, storeFail, proto string
	acks                       int
	tick                       chan struct{}
}

func (c *c16Child) snapshot() c16Child {
	c.mu.Lock()
	defer c.mu.Unlock()
	return c16Child{started: c.started, opened: c.opened, done: c.done, eof: c.eof, openFail: c.openFail,
		storeFail: c.storeFail, proto: c.proto, acks: c.acks}
}

func c16Start(dir string, dirSeed int64, cycle, max int) (*c16Child, error) {
	cmd := exec.Command(os.Args[0], "-test.run", "^TestVerifStoreChild$", "-test.timeout", "0")
	cmd.Env = append(os.Environ(), "VERIF_C16_CHILD_DIR="+dir, "VERIF_C16_DIRSEED="+strconv.FormatInt(dirSeed, 10),
		"VERIF_C16_CYCLE="+strconv.Itoa(cycle), "VERIF_C16_MAX="+strconv.Itoa(max))
	cmd.Stderr = nil
	// An own pipe, not cmd.StdoutPipe: cmd.Wait closes the read side of a StdoutPipe as soon as the process has
	// exited, and acknowledgement lines still sitting in the pipe would be lost - the parent would then account
	// fewer stores than the child performed.  Here the reader owns the read side and drains it to EOF (the write
	// side closes when the child dies) before anything is accounted.
	pipe, pw, err := os.Pipe()
	if err != nil {
		return nil, err
	}
	cmd.Stdout = pw
	if err := cmd.Start(); err != nil {
		pw.Close()
		pipe.Close()
		return nil, err
	}
	pw.Close()
	c := &c16Child{cmd: cmd, tick: make(chan struct{}, 1)}
	go func() {
		defer pipe.Close()
		sc := bufio.NewScanner(pipe)
		sc.Buffer(make([]byte, 1<<16), 1<<20)
		for sc.Scan() {
			ln := sc.Text()
			if !strings.HasPrefix(ln, "@@") {
				continue
			}
			ln = ln[2:]
			c.mu.Lock()
			switch {
			case ln == "START":
				c.started = true
			case ln == "OPENED":
				c.opened = true
			case ln == "DONE":
				c.done = true
			case strings.HasPrefix(ln, "OPENFAIL"):
				c.openFail = ln
			case strings.HasPrefix(ln, "STOREFAIL"):
				c.storeFail = ln
			case strings.HasPrefix(ln, "A "):
				if n, err := strconv.Atoi(ln[2:]); err != nil || n != c.acks {
					c.proto = "unexpected acknowledgement line " + ln
				}
				c.acks++
			}
			c.mu.Unlock()
			select {
			case c.tick <- struct{}{}:
			default:
			}
		}
		c.mu.Lock()
		if err := sc.Err(); err != nil {
			c.proto = "reading the child's output: " + err.Error()
		}
		c.eof = true
		c.mu.Unlock()
		select {
		case c.tick <- struct{}{}:
		default:
		}
	}()
	return c, nil
}

// wait until pred holds, the child's output ended, or the timeout expires; returns pred's last value.
func (c *c16Child) waitFor(pred func(s c16Child) bool, timeout time.Duration) bool {
	deadline := time.After(timeout)
	for {
		s := c.snapshot()
		if pred(s) {
			return true
		}
		if s.eof {
			return false
		}
		select {
		case <-c.tick:
		case <-time.After(50 * time.Millisecond):
		case <-deadline:
			return false
		}
	}
}

type c16Plan struct {
	Mode  string // "early": delay after START; "run": delay after OPENED; "ack": when acknowledgement N arrives
	Delay time.Duration
	N     int
}

func c16Plans(rnd *rand.Rand, cycles int, maxRun time.Duration) []c16Plan {
	var ps []c16Plan
	early := []time.Duration{0, 200 * time.Microsecond, time.Millisecond, 3 * time.Millisecond, 8 * time.Millisecond, 20 * time.Millisecond}
	ackN := []int{1, 2, 3, 10, 100, 1000, 5000}
	for i := 0; i < cycles; i++ {
		switch x := rnd.Intn(10); {
		case i == 0: // the first cycle creates some content
			ps = append(ps, c16Plan{Mode: "ack", N: 200})
		case x < 2:
			ps = append(ps, c16Plan{Mode: "early", Delay: early[rnd.Intn(len(early))]})
		case x < 4:
			ps = append(ps, c16Plan{Mode: "run", Delay: time.Duration(rnd.Intn(5000)) * time.Microsecond})
		case x < 7: // log-uniform up to maxRun
			f := rnd.Float64()
			d := time.Duration(float64(time.Millisecond) * math.Pow(float64(maxRun/time.Millisecond), f))
			ps = append(ps, c16Plan{Mode: "run", Delay: d})
		default:
			ps = append(ps, c16Plan{Mode: "ack", N: ackN[rnd.Intn(len(ackN))]})
		}
	}
	// one long run per directory (many writes, flushes and compactions)
	if cycles >= 3 {
		ps[cycles/2] = c16Plan{Mode: "run", Delay: maxRun}
	}
	return ps
}

type c16Stats struct {
	cycles, killsEarly, killsRun, killsAck, storesAcked, storesUnacked, unackedSurvived, unackedLost int
	neverOpened, selfExit, gets                                                                      int
	maxAcks                                                                                          int
	closedRefused, closedAcked, closedStalled                                                        int
	overlapRefused, overlapGranted                                                                   int
}

// one directory: returns the trace lines, stats, and a non-empty string when the run is undecided (broken).
func c16Dir(base string, dirIdx int, seed int64, cycles, maxStores int, maxRun time.Duration) ([]scLineC16, c16Stats, string) {
	var lines []scLineC16
	var st c16Stats
	log := func(ev string, a, s map[string]interface{}) {
		if a == nil {
			a = map[string]interface{}{}
		}
		if s == nil {
			s = map[string]interface{}{}
		}
		lines = append(lines, scLineC16{ev, a, s})
	}
	dirSeed := seed*100 + int64(dirIdx)
	dir := filepath.Join(base, fmt.Sprintf("dir%d", dirIdx))
	if err := os.MkdirAll(dir, 0o755); err != nil {
		return nil, st, "mkdir: " + err.Error()
	}
	ids := c16Ids(dirSeed)
	w := shNewWorld()
	wroteIn := map[[32]byte]int{} // hash of the bytes -> cycle they belong to
	tab := make([]interface{}, len(ids))
	vids := make([]vaa.VAAID, len(ids)) // computed once: shWorld is not safe for concurrent use
	for i, id := range ids {
		tab[i] = id.J()
		vids[i] = w.vaaID(id)
	}
	// the parent creates the store and closes it cleanly
	d, err := Open(dir)
	if err != nil {
		return nil, st, "cannot create the store: " + err.Error()
	}
	log("Reset", map[string]interface{}{"ids": tab, "dir": dirIdx}, nil)
	if err := d.Close(); err != nil {
		return nil, st, "cannot close the fresh store: " + err.Error()
	}
	log("Close", nil, map[string]interface{}{"err": ""})
	last := map[int]string{} // identifier index -> tag found after the previous reopen ("" = absent)

	plans := c16Plans(rand.New(rand.NewSource(dirSeed*31+3)), cycles, maxRun)
	closedRnd := rand.New(rand.NewSource(dirSeed*53 + 11))
	closedStalled := false
	for cyc, plan := range plans {
		st.cycles++
		for _, id := range ids { // everything this cycle's child can write
			for t := 0; t < c16Tags; t++ {
				v := c16Build(w, id, c16Tag(t), cyc)
				h := sha256.Sum256(v.Encode())
				w.byHash[h] = shVal{ID: id, Tag: c16Tag(t)}
				wroteIn[h] = cyc
			}
		}
		ch, err := c16Start(dir, dirSeed, cyc, maxStores)
		if err != nil {
			return lines, st, "cannot start the child: " + err.Error()
		}
		if !ch.waitFor(func(s c16Child) bool { return s.started }, c16Timeout) {
			ch.cmd.Process.Kill()
			ch.cmd.Wait()
			return lines, st, "the child did not start"
		}
		switch plan.Mode {
		case "early":
			time.Sleep(plan.Delay)
			st.killsEarly++
		case "run":
			ch.waitFor(func(s c16Child) bool { return s.opened || s.openFail != "" }, c16Timeout)
			time.Sleep(plan.Delay)
			st.killsRun++
		case "ack":
			ch.waitFor(func(s c16Child) bool { return s.acks >= plan.N || s.done || s.openFail != "" || s.storeFail != "" }, c16Timeout)
			st.killsAck++
		}
		// Overlapping instance (a supervisor that restarts the node before the old process is gone): in every third
		// cycle a second Open of the directory is attempted while the child is still storing.  Refusing it is fine;
		// if it is granted, the second instance is closed again and the cycle goes on - whatever the first instance
		// acknowledges, before or after, must still be there after the kill and the reopen.
		overlap := ""
		if plan.Mode != "early" && cyc%3 == 1 && ch.snapshot().opened && !ch.snapshot().eof {
			func() {
				defer func() {
					if x := recover(); x != nil {
						overlap = fmt.Sprintf("panic: %v", x)
					}
				}()
				d2, err := Open(dir)
				if err != nil {
					overlap = "refused"
					st.overlapRefused++
					return
				}
				overlap = "granted"
				st.overlapGranted++
				time.Sleep(3 * time.Millisecond)
				d2.Close()
				before := ch.snapshot().acks
				ch.waitFor(func(s c16Child) bool { return s.acks >= before+20 || s.done || s.eof || s.storeFail != "" }, 2*time.Second)
			}()
		}
		selfExit := ch.snapshot().eof
		if err := ch.cmd.Process.Kill(); err != nil && !strings.Contains(err.Error(), "already finished") {
			return lines, st, "cannot kill the child: " + err.Error()
		}
		ch.waitFor(func(s c16Child) bool { return s.eof }, c16Timeout) // drain every acknowledgement first
		ch.cmd.Wait()
		s := ch.snapshot()
		if !s.eof {
			return lines, st, "the child's output did not end after the kill"
		}
		if s.proto != "" {
			return lines, st, "child protocol: " + s.proto
		}
		if s.storeFail != "" {
			return lines, st, "StoreSignedVAA failed in the child (environment?): " + s.storeFail
		}
		if selfExit {
			st.selfExit++
		}
		// ---- the history of this cycle
		log("OpenBegin", map[string]interface{}{"who": "child", "cycle": cyc}, nil) // START seen: the child entered db.Open
		if s.openFail != "" {
			log("Reopen", map[string]interface{}{"who": "child", "cycle": cyc}, map[string]interface{}{"ok": false, "err": s.openFail})
			return lines, st, ""
		}
		attempted, attemptedTag := -1, ""
		if s.opened {
			log("Reopen", map[string]interface{}{"who": "child", "cycle": cyc}, map[string]interface{}{"ok": true, "err": ""})
			stream := c16NewStream(dirSeed, cyc)
			var chunk []interface{}
			for n := 0; n < s.acks; n++ {
				k, tag := stream.next()
				chunk = append(chunk, []interface{}{k, tag})
				if len(chunk) == c16Chunk || n == s.acks-1 {
					log("StoreAcked", map[string]interface{}{"vs": chunk}, nil)
					chunk = nil
				}
			}
			st.storesAcked += s.acks
			if s.acks > st.maxAcks {
				st.maxAcks = s.acks
			}
			if !s.done && s.acks < maxStores {
				// the store the child was (possibly) executing when it died: not acknowledged
				k, tag := stream.next()
				attempted, attemptedTag = k, tag
				log("Store", map[string]interface{}{"v": map[string]interface{}{"id": ids[k].J(), "tag": tag}, "acked": false},
					map[string]interface{}{"err": ""})
				st.storesUnacked++
			}
		} else {
			st.neverOpened++
		}
		log("Kill", map[string]interface{}{"mode": plan.Mode, "delay_us": int(plan.Delay / time.Microsecond), "n": plan.N,
			"acks": s.acks, "cycle": cyc, "opened": s.opened, "overlap": overlap}, nil)
		// ---- reopen and read everything
		d, err := Open(dir)
		if err != nil {
			log("Reopen", map[string]interface{}{"who": "parent", "cycle": cyc}, map[string]interface{}{"ok": false, "err": shErrStr(err)})
			return lines, st, ""
		}
		log("Reopen", map[string]interface{}{"who": "parent", "cycle": cyc}, map[string]interface{}{"ok": true, "err": ""})
		// Pass 1: look every identifier up; identify the returned bytes at once AND keep the returned slices.
		// Pass 2: a few goroutines look everything up concurrently and keep their slices too.
		// Only then are the held slices identified again: bytes a lookup returned must not change afterwards
		// (a result that is overwritten by a later lookup is a lookup that returned bytes never stored under
		// that identifier).
		type c16Got struct {
			k          int
			b          []byte
			code, errs string
			res        []interface{}
		}
		identify := func(b []byte) map[string]interface{} {
			c := w.classify(b)
			if wc, ok := wroteIn[sha256.Sum256(b)]; ok {
				c["wc"] = wc
			}
			return c
		}
		fetch := func(k int) c16Got {
			b, err := d.GetSignedVAABytes(vids[k])
			g := c16Got{k: k, b: b, code: "OK"}
			if err == ErrVAANotFound {
				g.code, g.b = "NotFound", nil
			} else if err != nil {
				g.code, g.errs, g.b = "Error", shErrStr(err), nil
			}
			return g
		}
		pass1 := make([]c16Got, 0, len(ids))
		for k := range ids {
			g := fetch(k)
			g.res = []interface{}{}
			if g.b != nil {
				g.res = append(g.res, identify(g.b))
			}
			pass1 = append(pass1, g)
		}
		const readers = 3
		pass2 := make([][]c16Got, readers)
		var rwg sync.WaitGroup
		for r := 0; r < readers; r++ {
			rwg.Add(1)
			go func(r int) {
				defer rwg.Done()
				for i := range ids {
					pass2[r] = append(pass2[r], fetch((i*7+r*13)%len(ids))) // 7 is coprime to the table size 44
				}
			}(r)
		}
		rwg.Wait()
		held := func(b []byte) []interface{} {
			if b == nil {
				return []interface{}{}
			}
			return []interface{}{identify(b)}
		}
		for _, g := range pass1 {
			log("Get", map[string]interface{}{"id": ids[g.k].J(), "via": "db", "pass": 1},
				map[string]interface{}{"err": g.errs, "code": g.code, "res": g.res, "held": held(g.b)})
			st.gets++
			last[g.k] = ""
			if len(g.res) > 0 {
				last[g.k] = g.res[0].(map[string]interface{})["tag"].(string)
			}
		}
		for r := range pass2 {
			for _, g := range pass2[r] {
				h := held(g.b)
				log("Get", map[string]interface{}{"id": ids[g.k].J(), "via": "db", "pass": 2, "reader": r},
					map[string]interface{}{"err": g.errs, "code": g.code, "res": h, "held": h})
				st.gets++
			}
		}
		if attempted >= 0 { // statistic only: did the unacknowledged write survive the kill?
			if last[attempted] == attemptedTag {
				st.unackedSurvived++
			} else {
				st.unackedLost++
			}
		}
		cerr := d.Close()
		log("Close", nil, map[string]interface{}{"err": shErrStr(cerr)})

		// A store racing with shutdown: StoreSignedVAA on the handle that has just been closed - a commit Badger
		// refuses.  The reply is logged; the specification decides from it: nil = acknowledged, the VAA has to be
		// found from now on (looked up right after a reopen, and again after the next cycle's kill); an error =
		// refused, nothing has to be there.
		if !closedStalled && (cyc == 0 || closedRnd.Intn(3) == 0) {
			n := 1 + closedRnd.Intn(2)
			for j := 0; j < n && !closedStalled; j++ {
				k := closedRnd.Intn(c16Stored)
				tag := c16Tag(closedRnd.Intn(c16Tags))
				v := c16Build(w, ids[k], tag, cyc)
				// the call runs under a watchdog: an implementation that hands the commit to a pipeline which a closed
				// store no longer drains would block here for ever.  A call that does not return has not acknowledged
				// anything (logged as refused, "stall: ..."); no further closed-store calls are made on this directory.
				reply := make(chan string, 1)
				go func() {
					defer func() {
						if p := recover(); p != nil {
							reply <- shErrStr(fmt.Errorf("panic: %v", p))
						}
					}()
					reply <- shErrStr(d.StoreSignedVAA(shToVAA(v)))
				}()
				var errs string
				select {
				case errs = <-reply:
				case <-time.After(c16StallTimeout):
					errs = "stall: StoreSignedVAA on a closed store did not return within " + c16StallTimeout.String()
					closedStalled = true
					st.closedStalled++
				}
				log("StoreClosed", map[string]interface{}{"v": map[string]interface{}{"id": ids[k].J(), "tag": tag}, "cycle": cyc},
					map[string]interface{}{"err": errs})
				if errs == "" {
					st.closedAcked++
				} else {
					st.closedRefused++
				}
			}
			d2, err := Open(dir)
			if err != nil {
				log("Reopen", map[string]interface{}{"who": "parent", "cycle": cyc, "after": "closed-store"}, map[string]interface{}{"ok": false, "err": shErrStr(err)})
				return lines, st, ""
			}
			log("Reopen", map[string]interface{}{"who": "parent", "cycle": cyc, "after": "closed-store"}, map[string]interface{}{"ok": true, "err": ""})
			for k := range ids {
				b, err := d2.GetSignedVAABytes(vids[k])
				code, errs := "OK", ""
				res := []interface{}{}
				if err == ErrVAANotFound {
					code = "NotFound"
				} else if err != nil {
					code, errs = "Error", shErrStr(err)
				} else {
					c := w.classify(b)
					if wc, ok := wroteIn[sha256.Sum256(b)]; ok {
						c["wc"] = wc
					}
					res = append(res, c)
				}
				log("Get", map[string]interface{}{"id": ids[k].J(), "via": "db", "pass": 1, "after": "closed-store"},
					map[string]interface{}{"err": errs, "code": code, "res": res})
				st.gets++
			}
			cerr := d2.Close()
			log("Close", nil, map[string]interface{}{"err": shErrStr(cerr)})
		}
	}
	return lines, st, ""
}

type scLineC16 struct {
	ev string
	a  map[string]interface{}
	s  map[string]interface{}
}

// One parent process drives ONE directory (lib/fam_store.py starts several such processes for the thorough
// tier).  Several directories inside one process would share the process's file descriptors: a child forked
// for directory A briefly holds, until its exec, a duplicate of the descriptor whose flock guards directory B,
// and B's next child can then find B "in use by another process" - an artefact of the harness, not of the store.
func TestVerifStoreCrash(t *testing.T) {
	trPath := os.Getenv("VERIF_TRACE")
	if trPath == "" || os.Getenv("VERIF_C16_CHILD_DIR") != "" {
		t.Skip("VERIF_TRACE not set")
	}
	seed, _ := strconv.ParseInt(os.Getenv("VERIF_SEED"), 10, 64)
	dirIdx, _ := strconv.Atoi(os.Getenv("VERIF_C16_DIRIDX"))
	cycles, _ := strconv.Atoi(os.Getenv("VERIF_C16_CYCLES"))
	maxStores, _ := strconv.Atoi(os.Getenv("VERIF_C16_MAXSTORES"))
	maxRunMs, _ := strconv.Atoi(os.Getenv("VERIF_C16_MAXRUN_MS"))
	if cycles <= 0 || maxStores <= 0 || maxRunMs <= 0 {
		t.Fatal("VERIF_C16_CYCLES / MAXSTORES / MAXRUN_MS not set")
	}
	tr, err := vhOpenTrace(trPath)
	if err != nil {
		t.Fatal(err)
	}
	defer tr.Close()
	lines, st, broken := c16Dir(t.TempDir(), dirIdx, seed, cycles, maxStores, time.Duration(maxRunMs)*time.Millisecond)
	if broken != "" {
		fmt.Printf("VERIF-BROKEN dir=%d %s\n", dirIdx, broken)
		t.Fatal(broken)
	}
	for _, ln := range lines {
		tr.Emit(dirIdx+1, ln.ev, ln.a, ln.s)
	}
	fmt.Printf("VERIF-C16 {\"cycles\":%d,\"kills_while_opening\":%d,\"kills_timed\":%d,\"kills_on_ack\":%d,\"stores_acked\":%d,"+
		"\"stores_unacked\":%d,\"unacked_survived\":%d,\"unacked_lost\":%d,\"killed_before_opened\":%d,\"child_exited_by_itself\":%d,"+
		"\"lookups\":%d,\"max_acks_in_a_cycle\":%d,\"stores_on_closed_store_refused\":%d,\"stores_on_closed_store_acknowledged\":%d,\"stores_on_closed_store_stalled\":%d,\"second_open_while_open_refused\":%d,\"second_open_while_open_granted\":%d,\"lines\":%d}\n",
		st.cycles, st.killsEarly, st.killsRun, st.killsAck, st.storesAcked, st.storesUnacked, st.unackedSurvived,
		st.unackedLost, st.neverOpened, st.selfExit, st.gets, st.maxAcks, st.closedRefused, st.closedAcked, st.closedStalled, st.overlapRefused, st.overlapGranted, tr.n)
}

// Deterministic kill points inside db.Open.  A SIGKILL that lands in Open between the creation of a file and its
// first write (or sizing) leaves that file behind with no content; the timed kills above hit such an instant only
// by chance.  This probe finds out which files Open itself creates - directory listing before / while open / after
// close, for a fresh directory and for an existing store - and prepares, on a copy of a cleanly closed store that
// holds acknowledged VAAs, the directory state of "killed between creation and first write" for each of them:
//   - Badger's log files (NNNNN.mem memtable WAL, NNNNNN.vlog value log; both created, then sized): zero length;
//   - every file that is not one of Badger's (whatever db.go's Open adds): zero length, and cut to half its length;
//   - Badger's other files (MANIFEST, KEYREGISTRY, DISCARD, LOCK), which Badger writes under a temporary name and
//     renames into place or maps: informational only (reported in VERIF-PROBE, no trace), as an empty file of that
//     name is not known to be a state a kill can leave.
//
// Each prepared state becomes one trace: Reset, StoreAcked, Close, OpenBegin, Kill (mode "emulated-torn-file"),
// Reopen, Get ..., Close - validated by TLC against Store.tla like the histories of real kills: Open must succeed
// (ReopenAlways) and every acknowledged VAA must be found (AckedSurvive).
func c16List(dir string) map[string]int64 {
	res := map[string]int64{}
	ents, _ := os.ReadDir(dir)
	for _, e := range ents {
		if fi, err := e.Info(); err == nil && !e.IsDir() {
			res[e.Name()] = fi.Size()
		}
	}
	return res
}

func c16BadgerFile(name string) (owned bool, logFile bool) {
	switch filepath.Ext(name) {
	case ".mem", ".vlog":
		return true, true
	case ".sst":
		return true, false
	}
	switch name {
	case "MANIFEST", "KEYREGISTRY", "DISCARD", "LOCK":
		return true, false
	}
	return false, false
}

func c16CopyDir(src, dst string) error {
	if err := os.MkdirAll(dst, 0o755); err != nil {
		return err
	}
	ents, err := os.ReadDir(src)
	if err != nil {
		return err
	}
	for _, e := range ents {
		if e.IsDir() {
			continue
		}
		b, err := os.ReadFile(filepath.Join(src, e.Name()))
		if err != nil {
			return err
		}
		if err := os.WriteFile(filepath.Join(dst, e.Name()), b, 0o644); err != nil {
			return err
		}
	}
	return nil
}

func TestVerifStoreProbeTornFiles(t *testing.T) {
	trPath := os.Getenv("VERIF_TRACE")
	if os.Getenv("VERIF_C16_PROBE") == "" || trPath == "" {
		t.Skip("probe not requested")
	}
	tr, err := vhOpenTrace(trPath)
	if err != nil {
		t.Fatal(err)
	}
	defer tr.Close()
	const stored, never = 12, 2
	ids := c16Ids(424242)[:stored+never]
	w := shNewWorld()
	tab := make([]interface{}, len(ids))
	vids := make([]vaa.VAAID, len(ids))
	for i, id := range ids {
		tab[i] = id.J()
		vids[i] = w.vaaID(id)
	}
	// ---- a fresh directory: what does Open create?
	S := filepath.Join(t.TempDir(), "store")
	if err := os.MkdirAll(S, 0o755); err != nil {
		t.Fatal(err)
	}
	d, err := Open(S)
	if err != nil {
		t.Fatal(err)
	}
	created := map[string]bool{}
	sizes := map[string]int64{}
	note := func(m map[string]int64, before map[string]int64) {
		for n, sz := range m {
			if _, had := before[n]; !had {
				created[n] = true
			}
			if sz > sizes[n] {
				sizes[n] = sz
			}
		}
	}
	note(c16List(S), nil)
	var vs []interface{}
	for k := 0; k < stored; k++ {
		tag := c16Tag(k)
		v := c16Build(w, ids[k], tag, 0)
		w.byHash[sha256.Sum256(v.Encode())] = shVal{ID: ids[k], Tag: tag}
		if err := d.StoreSignedVAA(shToVAA(v)); err != nil {
			t.Fatal(err)
		}
		vs = append(vs, []interface{}{k, tag})
	}
	if err := d.Close(); err != nil {
		t.Fatal(err)
	}
	note(c16List(S), nil)
	// ---- the existing store: what does Open create there?
	before := c16List(S)
	if d, err = Open(S); err != nil {
		t.Fatal(err)
	}
	note(c16List(S), before)
	if err := d.Close(); err != nil {
		t.Fatal(err)
	}
	note(c16List(S), before)
	final := c16List(S)

	type cand struct {
		file, variant string
		verdict       bool
	}
	var cands []cand
	seen := map[string]bool{}
	add := func(c cand) {
		if !seen[c.file+"|"+c.variant] {
			seen[c.file+"|"+c.variant] = true
			cands = append(cands, c)
		}
	}
	// Badger's next log files (the names the next Open would create), and the ones seen being created
	add(cand{"00001.mem", "zero-length", true})
	add(cand{"000002.vlog", "zero-length", true})
	names := make([]string, 0, len(created))
	for n := range created {
		names = append(names, n)
	}
	sort.Strings(names)
	for _, n := range names {
		owned, logf := c16BadgerFile(n)
		switch {
		case logf:
			if final[n] == 0 { // not a file that holds data in the closed store
				add(cand{n, "zero-length", true})
			}
		case owned:
			add(cand{n, "zero-length", false})
		default:
			add(cand{n, "zero-length", true})
			if sizes[n] >= 2 {
				add(cand{n, "cut-to-half", true})
			}
		}
	}
	summary := []string{}
	for ci, c := range cands {
		C := filepath.Join(t.TempDir(), "copy")
		if err := c16CopyDir(S, C); err != nil {
			t.Fatal(err)
		}
		target := filepath.Join(C, c.file)
		switch c.variant {
		case "zero-length":
			err = os.WriteFile(target, nil, 0o644)
		case "cut-to-half":
			var b []byte
			if b, err = os.ReadFile(filepath.Join(S, c.file)); err == nil {
				err = os.WriteFile(target, b[:len(b)/2], 0o644)
			}
		}
		if err != nil {
			t.Fatal(err)
		}
		tid := 1000 + ci
		info := map[string]interface{}{"mode": "emulated-torn-file", "file": c.file, "variant": c.variant, "cycle": 0, "who": "probe"}
		d, oerr := Open(C)
		if !c.verdict { // informational
			summary = append(summary, fmt.Sprintf("%q:{\"variant\":%q,\"informational\":true,\"open_error\":%q}", c.file+"#"+c.variant, c.variant, shErrStr(oerr)))
			if oerr == nil {
				d.Close()
			}
			continue
		}
		tr.Emit(tid, "Reset", map[string]interface{}{"ids": tab, "probe": true}, map[string]interface{}{})
		tr.Emit(tid, "StoreAcked", map[string]interface{}{"vs": vs}, map[string]interface{}{})
		tr.Emit(tid, "Close", map[string]interface{}{}, map[string]interface{}{"err": ""})
		tr.Emit(tid, "OpenBegin", map[string]interface{}{"who": "probe"}, map[string]interface{}{})
		tr.Emit(tid, "Kill", info, map[string]interface{}{})
		if oerr != nil {
			tr.Emit(tid, "Reopen", info, map[string]interface{}{"ok": false, "err": shErrStr(oerr)})
			summary = append(summary, fmt.Sprintf("%q:{\"variant\":%q,\"open_error\":%q}", c.file+"#"+c.variant, c.variant, shErrStr(oerr)))
			continue
		}
		tr.Emit(tid, "Reopen", info, map[string]interface{}{"ok": true, "err": ""})
		for k := range ids {
			b, gerr := d.GetSignedVAABytes(vids[k])
			code, errs := "OK", ""
			res := []interface{}{}
			if gerr == ErrVAANotFound {
				code = "NotFound"
			} else if gerr != nil {
				code, errs = "Error", shErrStr(gerr)
			} else {
				c := w.classify(b)
				c["wc"] = 0
				res = append(res, c)
			}
			tr.Emit(tid, "Get", map[string]interface{}{"id": ids[k].J(), "via": "db", "pass": 1},
				map[string]interface{}{"err": errs, "code": code, "res": res})
		}
		cerr := d.Close()
		tr.Emit(tid, "Close", map[string]interface{}{}, map[string]interface{}{"err": shErrStr(cerr)})
		summary = append(summary, fmt.Sprintf("%q:{\"variant\":%q,\"open_error\":\"\"}", c.file+"#"+c.variant, c.variant))
	}
	fmt.Printf("VERIF-PROBE {\"files_created_by_open\":%q,\"states\":{%s}}\n", strings.Join(names, " "), strings.Join(summary, ","))
}
