package supervisor

// Conformance + bounded-liveness harness for node/pkg/supervisor (property C18).  Injected into the package with
// `go test -overlay`; never exists under /repo.
//
// For every scenario (tree shape + one behaviour script per service and instance) the harness builds a REAL
// supervision tree: supervisor.New with a root runnable that calls supervisor.RunGroup for each group of its shape,
// whose members do the same.  The services are instrumented: they log Enter, RunGroup, Healthy, Done, SawCancel, Exit
// with a sequence number taken under ONE harness mutex (never wall-clock ordering).  API calls (RunGroup, Signal) are
// made while holding that mutex so that the logged order of service-side steps is their order under the supervisor's
// own lock.  Every line carries a snapshot of the supervisor's tree (state and ctx.Err()==nil of every node) read under
// s.mu.RLock.  Supervisor-internal steps (processSchedule / processDied / processGC / back-off / processKill) are not
// logged: Trace_Supervisor.tla infers them as silent actions between lines.
//
// Direct oracles (L part): an Enter while another instance of the same service has not exited ("Double"); a tree that
// makes no progress for VERIF_SUP_STALL seconds while something the specification says must run is not running
// ("Stall", with a goroutine dump); instances still running after the supervisor context was cancelled.

import (
	"bufio"
	"context"
	"encoding/json"
	"errors"
	"fmt"
	"os"
	"runtime"
	"sort"
	"strconv"
	"strings"
	"sync"
	"sync/atomic"
	"testing"
	"time"

	"go.uber.org/zap"
)

type svBeh struct {
	Sig   string `json:"sig"`   // "none" | "healthy"
	K     int    `json:"k"`     // work units before End
	End   string `json:"end"`   // "err" | "nil" | "panic" | "stay" | "done"
	Lat   int    `json:"lat"`   // work units during which a cancelled context is ignored after it was noticed
	Blind int    `json:"blind"` // first work units during which the context is not even looked at
	// Linger: (End == "done") work units the runnable keeps running AFTER it signalled Done, ignoring its context,
	// before it returns nil.  The instance still counts as running: no second instance may be started meanwhile.
	Linger int `json:"linger"`
	// After: "dn#inst:Ev" - the End action is held back (the runnable keeps working and honouring its context)
	// until the harness has logged that line, so that a failure can be placed inside another service's linger
	// without any wall-clock coordination.
	After string `json:"after"`
	// Barrier > 0: after logging its Exit line the runnable waits (at most 1 s) until Barrier runnables of the tree
	// have logged theirs, and only then returns: their death notices reach the processor within microseconds.
	Barrier int `json:"barrier"`
}

type svShape struct {
	Nodes []string              `json:"nodes"`
	Par   map[string][]string   `json:"par"`
	Grp   map[string][]string   `json:"grp"`
	Kids  map[string][][]string `json:"kids"`
}

type svScenario struct {
	ID        int                `json:"id"`
	Shape     svShape            `json:"shape"`
	Scripts   map[string][]svBeh `json:"scripts"`
	KillAfter int                `json:"killAfter"` // kill after this many logged lines; <0: after the tree settled
	// ObserveUs > 0: until the tree settled the driver samples the supervisor's tree every ObserveUs microseconds and
	// logs an "Obs" line (snapshot only) whenever it differs from the last logged snapshot.  This pins down the order
	// of the supervisor's silent steps between service-level lines (e.g. which nodes one restart scan re-initialised).
	ObserveUs int    `json:"observeUs"`
	GraceMs   int    `json:"graceMs"` // observation window after everything stopped
	UnitUs    int    `json:"unitUs"`  // length of a work unit
	Src       string `json:"src"`
}

type svTrace struct {
	mu sync.Mutex // THE harness mutex
	f  *os.File
	w  *bufio.Writer
	g  int
}

var svT *svTrace
var svDir string // where goroutine dumps go

var svLastLine atomic.Int64 // unix nanos of the last logged line of any tree (watchdog, independent of the mutexes)
var svOpen atomic.Int64     // trees not yet ended

const svMaxLines = 4000 // a tree with a handful of scripted failures that logs more than this is restarting endlessly

type svInst struct {
	no      int
	beh     svBeh
	resting bool // reached its final wait (stay) -- or returned after Done
	done    bool
	exited  bool
}

type svTree struct {
	sc       svScenario
	sup      *supervisor
	cancel   context.CancelFunc
	n        int                // lines logged for this tree
	count    map[string]int     // instances started per dn
	active   map[string]int     // instances entered and not exited per dn
	cur      map[string]*svInst // latest instance per dn
	lastProg time.Time
	seen     map[string]bool          // "dn#inst:Ev" of every logged service line
	lastSnap string                   // JSON of the snapshot of the last logged line
	atBar    int                      // runnables that logged Exit and wait at the barrier
	barC     chan struct{}            // closed when the barrier is full
	trig     map[string]chan struct{} // closed when the line "dn#inst:Ev" is logged (releases held End actions at once)
	hotUntil time.Time                // observer: sample without sleeping until then (a runnable has just returned)
	killed   bool
	ended    bool
	doubles  int
}

func svAbs(real string) string { // root.ax12.bx12 -> root.a.b
	parts := strings.Split(real, ".")
	for i, p := range parts {
		if j := strings.Index(p, "x"); j > 0 && i > 0 {
			parts[i] = p[:j]
		}
	}
	return strings.Join(parts, ".")
}

func (t *svTree) realName(absDn string) string { // root.a.b -> bx12 (last component)
	parts := strings.Split(absDn, ".")
	return parts[len(parts)-1] + "x" + strconv.Itoa(t.sc.ID)
}

var svStateNames = map[nodeState]string{nodeStateNew: "NEW", nodeStateHealthy: "HEALTHY", nodeStateDead: "DEAD",
	nodeStateDone: "DONE", nodeStateCanceled: "CANCELED"}

// snapshot of the supervisor's tree; caller holds the harness mutex.
func (t *svTree) snapshot() map[string]interface{} {
	res := map[string]interface{}{}
	if t.sup == nil {
		return res
	}
	t.sup.mu.RLock()
	defer t.sup.mu.RUnlock()
	var walk func(n *node, dn string)
	walk = func(n *node, dn string) {
		res[dn] = map[string]interface{}{"st": svStateNames[n.state], "live": n.ctx.Err() == nil}
		for name, c := range n.children {
			cn := name
			if j := strings.Index(name, "x"); j > 0 {
				cn = name[:j]
			}
			walk(c, dn+"."+cn)
		}
	}
	walk(t.sup.root, "root")
	return res
}

// emit writes one line; caller holds the harness mutex.
func (t *svTree) emit(ev string, a map[string]interface{}) {
	svT.g++
	t.n++
	if a == nil {
		a = map[string]interface{}{}
	}
	if dn, ok := a["dn"].(string); ok {
		if no, ok := a["inst"].(int); ok {
			t.fire(fmt.Sprintf("%s#%d:%s", dn, no, ev))
		}
	}
	if ev == "AllUp" {
		t.fire("AllUp")
	}
	snap := t.snapshot()
	if sb, err := json.Marshal(snap); err == nil {
		t.lastSnap = string(sb)
	}
	b, err := json.Marshal(map[string]interface{}{"t": t.sc.ID, "n": t.n, "g": svT.g, "ev": ev, "a": a, "s": snap})
	if err != nil {
		panic(err)
	}
	svT.w.Write(b)
	svT.w.WriteByte('\n')
	svT.w.Flush() // a crash of the processor goroutine kills the process: keep what was recorded
	t.lastProg = time.Now()
	if ev == "Exit" {
		t.hotUntil = t.lastProg.Add(3 * time.Millisecond) // death notice, restart scan (1 ms tick) follow shortly
	}
	svLastLine.Store(t.lastProg.UnixNano())
}

// log performs an optional API call and records the line, atomically with respect to all other logged steps.
func (t *svTree) log(ev string, a map[string]interface{}, call func()) {
	svT.mu.Lock()
	defer svT.mu.Unlock()
	if call != nil {
		call()
	}
	t.emit(ev, a)
}

// fire marks the line `key` as logged and releases whoever waits for it.  Caller holds the harness mutex.
func (t *svTree) fire(key string) {
	t.seen[key] = true
	if ch, ok := t.trig[key]; ok {
		close(ch)
		delete(t.trig, key)
	}
}

// released returns a channel that is closed once the line `key` has been logged.  Caller must not hold the mutex.
func (t *svTree) released(key string) <-chan struct{} {
	svT.mu.Lock()
	defer svT.mu.Unlock()
	if t.seen[key] {
		ch := make(chan struct{})
		close(ch)
		return ch
	}
	ch, ok := t.trig[key]
	if !ok {
		ch = make(chan struct{})
		t.trig[key] = ch
	}
	return ch
}

var errScripted = errors.New("scripted failure")

func (t *svTree) runnable(dn string) Runnable {
	return func(ctx context.Context) error {
		// ---- Enter
		svT.mu.Lock()
		t.count[dn]++
		no := t.count[dn]
		script := t.sc.Scripts[dn]
		idx := no - 1
		if idx >= len(script) {
			idx = len(script) - 1
		}
		in := &svInst{no: no, beh: script[idx]}
		if t.active[dn] > 0 {
			t.doubles++
			t.emit("Double", map[string]interface{}{"dn": dn, "inst": no, "active": t.active[dn]})
		}
		t.active[dn]++
		t.cur[dn] = in
		t.emit("Enter", map[string]interface{}{"dn": dn, "inst": no})
		svT.mu.Unlock()

		exit := func(kind string) {
			svT.mu.Lock()
			t.active[dn]--
			in.exited = true
			if in.done {
				in.resting = true
			}
			t.emit("Exit", map[string]interface{}{"dn": dn, "inst": no, "kind": kind})
			var bar chan struct{}
			if in.beh.Barrier > 0 && kind != "ctxErr" {
				t.atBar++
				if t.atBar >= in.beh.Barrier {
					close(t.barC)
					t.barC = make(chan struct{})
					t.atBar = 0
				} else {
					bar = t.barC
				}
			}
			svT.mu.Unlock()
			if bar != nil {
				select {
				case <-bar:
				case <-time.After(time.Second):
				}
			}
		}

		// A panic that is not the scripted one (the supervisor's API panics when a signal does not fit the node state)
		// still ends this instance: record it, then let the supervisor's own recover() see it.
		defer func() {
			if r := recover(); r != nil {
				if !in.exited {
					t.log("ApiPanic", map[string]interface{}{"dn": dn, "inst": no, "msg": fmt.Sprint(r)}, nil)
					exit("panic")
				}
				panic(r)
			}
		}()

		// ---- setup: start the groups of the shape
		for _, g := range t.sc.Shape.Kids[dn] {
			rs := map[string]Runnable{}
			for _, c := range g {
				rs[t.realName(c)] = t.runnable(c)
			}
			var rerr error
			t.log("RunGroup", map[string]interface{}{"dn": dn, "inst": no, "g": g}, func() { rerr = RunGroup(ctx, rs) })
			if rerr != nil {
				t.log("HarnessError", map[string]interface{}{"dn": dn, "err": rerr.Error()}, nil)
			}
		}
		if (in.beh.Sig == "healthy" || in.beh.End == "done" || in.beh.End == "donetwice" || in.beh.End == "badhealthy") && in.beh.End != "baddone" {
			t.log("Healthy", map[string]interface{}{"dn": dn, "inst": no}, func() { Signal(ctx, SignalHealthy) })
		}

		// ---- work loop
		unit := time.Duration(t.sc.UnitUs) * time.Microsecond
		if unit <= 0 {
			unit = 300 * time.Microsecond
		}
		sawc := false
		lat := in.beh.Lat
		k := in.beh.K
		step := 0
		fault := in.beh.End != "stay" && in.beh.End != "done"
		holdUntil := time.Now().Add(6 * time.Second) // a trigger that never comes does not hold the End back for ever
		var rel <-chan struct{}                      // nil (never ready) unless the End action waits for a line
		if in.beh.After != "" {
			rel = t.released(in.beh.After)
		}
		for {
			if sawc {
				if lat <= 0 {
					exit("ctxErr")
					return ctx.Err()
				}
				// ignoring the cancelled context for `lat` more units; a scripted failure may still strike meanwhile
				time.Sleep(unit)
				lat--
				k--
				if fault && k <= 0 {
					break
				}
				continue
			}
			if in.beh.End != "stay" && k <= 0 {
				held := false
				if in.beh.After != "" {
					svT.mu.Lock()
					held = !t.seen[in.beh.After] && time.Now().Before(holdUntil)
					svT.mu.Unlock()
				}
				if !held {
					break
				}
			}
			if step < in.beh.Blind {
				time.Sleep(unit) // not even looking at the context
				step++
				k--
				continue
			}
			if in.beh.End == "stay" {
				svT.mu.Lock()
				in.resting = true
				svT.mu.Unlock()
				<-ctx.Done()
			} else {
				tm := time.NewTimer(unit)
				select {
				case <-ctx.Done():
					tm.Stop()
				case <-rel:
					tm.Stop()
					rel = nil
				case <-tm.C:
				}
			}
			if ctx.Err() != nil {
				sawc = true
				svT.mu.Lock()
				in.resting = false
				t.emit("SawCancel", map[string]interface{}{"dn": dn, "inst": no})
				svT.mu.Unlock()
				continue
			}
			step++
			k--
		}
		// A signal the node state does not allow: supervisor.Signal must panic (and release the tree lock while
		// unwinding); the panic then ends this runnable through the supervisor's own recover().
		badSignal := func(sig SignalType, name string) error {
			var rec interface{}
			svT.mu.Lock()
			func() {
				defer func() { rec = recover() }()
				Signal(ctx, sig)
			}()
			free := false
			for i := 0; i < 3000 && !free; i++ { // the supervisor's critical sections take microseconds
				if t.sup.mu.TryRLock() {
					t.sup.mu.RUnlock()
					free = true
				} else {
					time.Sleep(time.Millisecond)
				}
			}
			if !free {
				p := svDump(svDir, t.sc.ID, "lockleak")
				fmt.Printf("VERIF-SUPERVISOR-LOCKLEAK tree=%d dn=%s sig=%s panicked=%v dump=%s\n", t.sc.ID, dn, name, rec != nil, p)
				os.Exit(3)
			}
			t.active[dn]--
			in.exited = true
			in.done = false // not a completed service after all
			t.emit("BadSignal", map[string]interface{}{"dn": dn, "inst": no, "sig": name, "panicked": rec != nil})
			svT.mu.Unlock()
			if rec != nil {
				panic(rec)
			}
			return fmt.Errorf("%s instance %d: refused signal was accepted: %w", dn, no, errScripted)
		}
		switch in.beh.End {
		case "baddone":
			return badSignal(SignalDone, "done")
		case "badhealthy":
			return badSignal(SignalHealthy, "healthy")
		case "donetwice":
			t.log("Done", map[string]interface{}{"dn": dn, "inst": no}, func() { in.done = true; Signal(ctx, SignalDone) })
			return badSignal(SignalDone, "done")
		case "done":
			t.log("Done", map[string]interface{}{"dn": dn, "inst": no}, func() { in.done = true; Signal(ctx, SignalDone) })
			for i := 0; i < in.beh.Linger; i++ {
				time.Sleep(unit) // completed, but still running
			}
			exit("nil")
			return nil
		case "nil":
			exit("nil")
			return nil
		case "panic":
			exit("panic")
			panic("scripted panic in " + dn)
		// errors that merely look like a cancellation: they do not come from the supervisor's context of this node
		case "canceled":
			exit("canceled")
			return context.Canceled
		case "wrapcanceled":
			exit("wrapcanceled")
			return fmt.Errorf("%s instance %d: sub-context: %w", dn, no, context.Canceled)
		case "deadline":
			exit("deadline")
			return context.DeadlineExceeded
		default:
			exit("err")
			return fmt.Errorf("%s instance %d: %w", dn, no, errScripted)
		}
	}
}

// settled: every service of the shape has completed (Done) or rests in its final behaviour with a live context.
// Caller holds the harness mutex.
func (t *svTree) settled() (bool, string) {
	snap := t.snapshot()
	for _, dn := range t.sc.Shape.Nodes {
		in := t.cur[dn]
		s, ok := snap[dn].(map[string]interface{})
		if in == nil || !ok {
			return false, dn + ":absent"
		}
		if s["st"] == "DONE" && in.done && in.exited {
			continue
		}
		if in.resting && !in.exited && s["live"] == true && (s["st"] == "HEALTHY" || s["st"] == "NEW") {
			continue
		}
		return false, fmt.Sprintf("%s:%v/live=%v", dn, s["st"], s["live"])
	}
	return true, ""
}

func (t *svTree) anyActive() int {
	n := 0
	for _, v := range t.active {
		n += v
	}
	return n
}

func (t *svTree) processorExited() bool {
	t.sup.mu.RLock()
	defer t.sup.mu.RUnlock()
	return t.sup.root.ctx.Err() != nil
}

func svDump(dir string, id int, phase string) string {
	buf := make([]byte, 1<<22)
	n := runtime.Stack(buf, true)
	p := fmt.Sprintf("%s/stall_%d_%s.txt", dir, id, phase)
	os.WriteFile(p, buf[:n], 0o644)
	return p
}

func (t *svTree) drive(dir string, stall time.Duration) {
	ctx, cancel := context.WithCancel(context.Background())
	t.cancel = cancel
	sh := t.sc.Shape
	t.log("Reset", map[string]interface{}{"shape": map[string]interface{}{"nodes": sh.Nodes, "par": sh.Par, "grp": sh.Grp, "kids": sh.Kids},
		"src": t.sc.Src}, nil)
	svT.mu.Lock() // the root's Enter must not read t.sup before it is set
	t.sup = New(ctx, zap.NewNop(), t.runnable("root"))
	svT.mu.Unlock()

	poll := 2 * time.Millisecond
	// ---- phase 1: until settled (or the scripted kill point)
	poll1 := poll
	if t.sc.ObserveUs > 0 {
		poll1 = time.Duration(t.sc.ObserveUs) * time.Microsecond
	}
	hot := false
	for {
		if hot {
			runtime.Gosched()
		} else {
			time.Sleep(poll1)
		}
		svT.mu.Lock()
		hot = t.sc.ObserveUs > 0 && time.Now().Before(t.hotUntil)
		if t.sc.ObserveUs > 0 {
			if !t.seen["AllUp"] && len(t.cur) == len(t.sc.Shape.Nodes) {
				t.emit("AllUp", nil) // every service of the shape has entered: releases End actions held with after = "AllUp"
			}
			if sb, err := json.Marshal(t.snapshot()); err == nil && string(sb) != t.lastSnap {
				t.emit("Obs", nil)
			}
		}
		ok, why := t.settled()
		killNow := t.sc.KillAfter >= 0 && t.n >= t.sc.KillAfter
		if t.n > svMaxLines {
			t.emit("Runaway", map[string]interface{}{"lines": t.n, "why": why})
			killNow = true
		}
		idle := time.Since(t.lastProg)
		if ok {
			t.emit("Settled", nil)
		}
		svT.mu.Unlock()
		if ok {
			// the package's own notion of "settled" (no request for > 50 GC cycles) must be reached as well
			wctx, wcancel := context.WithTimeout(context.Background(), stall)
			werr := t.sup.waitSettle(wctx)
			wcancel()
			t.log("WaitSettled", map[string]interface{}{"ok": werr == nil}, nil)
		}
		if ok || killNow {
			break
		}
		if idle > stall {
			p := svDump(dir, t.sc.ID, "settle")
			t.log("Stall", map[string]interface{}{"phase": "settle", "why": why, "idleMs": idle.Milliseconds(), "dump": p}, nil)
			break
		}
	}
	// ---- phase 2: cancel the supervisor's context; everything must stop
	svT.mu.Lock()
	t.killed = true
	cancel()
	t.emit("Kill", nil)
	svT.mu.Unlock()
	for {
		time.Sleep(poll)
		svT.mu.Lock()
		act := t.anyActive()
		idle := time.Since(t.lastProg)
		svT.mu.Unlock()
		if act == 0 && t.processorExited() {
			break
		}
		if idle > stall {
			p := svDump(dir, t.sc.ID, "kill")
			t.log("Stall", map[string]interface{}{"phase": "kill", "why": fmt.Sprintf("active=%d procExited=%v", act, t.processorExited()),
				"idleMs": idle.Milliseconds(), "dump": p}, nil)
			break
		}
	}
	if t.processorExited() {
		t.log("ObsKilled", nil, nil)
	}
	// ---- phase 3: observation window: nothing may start any more (late lines are still recorded and validated)
	grace := time.Duration(t.sc.GraceMs) * time.Millisecond
	deadline := time.Now().Add(grace)
	for time.Now().Before(deadline) {
		time.Sleep(poll)
	}
	// instances that entered during the window must stop as well
	for {
		svT.mu.Lock()
		act := t.anyActive()
		idle := time.Since(t.lastProg)
		svT.mu.Unlock()
		if act == 0 {
			break
		}
		if idle > stall {
			p := svDump(dir, t.sc.ID, "late")
			t.log("Stall", map[string]interface{}{"phase": "late", "why": fmt.Sprintf("active=%d", act), "idleMs": idle.Milliseconds(), "dump": p}, nil)
			break
		}
		time.Sleep(poll)
	}
	svT.mu.Lock()
	t.ended = true
	t.emit("End", map[string]interface{}{"counts": t.count, "doubles": t.doubles})
	svT.mu.Unlock()
}

func svLoad(path string) ([]svScenario, error) {
	f, err := os.Open(path)
	if err != nil {
		return nil, err
	}
	defer f.Close()
	var res []svScenario
	sc := bufio.NewScanner(f)
	sc.Buffer(make([]byte, 1<<20), 1<<26)
	for sc.Scan() {
		if len(sc.Bytes()) == 0 {
			continue
		}
		var s svScenario
		if err := json.Unmarshal(sc.Bytes(), &s); err != nil {
			return nil, err
		}
		res = append(res, s)
	}
	return res, sc.Err()
}

// TestVerifSupervisor runs every scenario of VERIF_SCENARIOS on the real supervisor (in parallel, VERIF_SUP_PAR at a
// time) and writes the recorded lines to VERIF_TRACE.
func TestVerifSupervisor(t *testing.T) {
	scp, trp := os.Getenv("VERIF_SCENARIOS"), os.Getenv("VERIF_TRACE")
	if scp == "" || trp == "" {
		t.Skip("VERIF_SCENARIOS / VERIF_TRACE not set")
	}
	scs, err := svLoad(scp)
	if err != nil {
		t.Fatalf("scenarios: %v", err)
	}
	f, err := os.Create(trp)
	if err != nil {
		t.Fatal(err)
	}
	svT = &svTrace{f: f, w: bufio.NewWriterSize(f, 1<<16)}
	dir := os.Getenv("VERIF_SUP_DIR")
	if dir == "" {
		dir = os.TempDir()
	}
	svDir = dir
	stall := 15 * time.Second
	if v, err := strconv.Atoi(os.Getenv("VERIF_SUP_STALL")); err == nil && v > 0 {
		stall = time.Duration(v) * time.Second
	}
	par := 16
	if v, err := strconv.Atoi(os.Getenv("VERIF_SUP_PAR")); err == nil && v > 0 {
		par = v
	}
	sort.SliceStable(scs, func(i, j int) bool { return scs[i].ID < scs[j].ID })
	sem := make(chan struct{}, par)
	var wg sync.WaitGroup
	t0 := time.Now()
	svLastLine.Store(t0.UnixNano())
	svOpen.Store(int64(len(scs)))
	go func() { // watchdog: the supervisor's lock (or the harness) is wedged if nothing at all is logged for stall + 10 s
		for {
			time.Sleep(500 * time.Millisecond)
			if svOpen.Load() > 0 && time.Since(time.Unix(0, svLastLine.Load())) > stall+10*time.Second {
				p := svDump(dir, 0, "hung")
				fmt.Printf("VERIF-SUPERVISOR-HUNG dump=%s open=%d\n", p, svOpen.Load())
				os.Exit(3)
			}
		}
	}()
	for i := range scs {
		tr := &svTree{sc: scs[i], count: map[string]int{}, active: map[string]int{}, cur: map[string]*svInst{}, seen: map[string]bool{}, trig: map[string]chan struct{}{}, barC: make(chan struct{}), lastProg: time.Now()}
		wg.Add(1)
		sem <- struct{}{}
		go func() {
			defer wg.Done()
			defer func() { <-sem }()
			defer svOpen.Add(-1)
			tr.drive(dir, stall)
		}()
	}
	wg.Wait()
	time.Sleep(300 * time.Millisecond) // late lines of any tree are still recorded
	svT.mu.Lock()
	svT.w.Flush()
	svT.f.Sync()
	svT.mu.Unlock()
	fmt.Printf("VERIF-SUPERVISOR-DONE trees=%d lines=%d wall=%.1fs\n", len(scs), svT.g, time.Since(t0).Seconds())
}
