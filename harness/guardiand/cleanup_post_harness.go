package PKG

// C17, third caller of the outbound re-observation request queue: the retry branch of the processor's
// handleCleanup (node/pkg/processor/cleanup.go).  Injected into package processor through `go test -overlay`
// (together with harness/common/vh.go); nothing of it exists under /repo.
//
// The specification action is Reobserve!Post(id, ok): a post succeeds iff the outbound queue has room and never
// waits.  Here the poster is the REAL handleCleanup: the harness builds a Processor whose aggregation state holds
// m observed, unsubmitted, settled entries that have been waiting for more than five minutes (so each of them
// takes the retry branch and posts one re-observation request), gives it an outbound queue of capacity k that
// already holds j requests, and calls handleCleanup once in a goroutine with a deadline (VERIF_DEADLINE_MS,
// default 10 s; the code needs microseconds).  Linearization: handleCleanup returned.  Posts inside one pass are
// sequential, so the ones that found room are the first (k - j) and are in the queue in order; the harness reads
// the queue afterwards and logs one "Post" line per entry (via = "cleanup"): ok = its request is in the queue.
// If the pass does not return in time a "Stall" line with the goroutine dump is logged (never blocks).

import (
	"context"
	"encoding/hex"
	"encoding/json"
	"fmt"
	"os"
	"runtime"
	"strconv"
	"strings"
	"testing"
	"time"

	"github.com/alephium/wormhole-fork/node/pkg/common"
	"github.com/alephium/wormhole-fork/node/pkg/db"
	gossipv1 "github.com/alephium/wormhole-fork/node/pkg/proto/gossip/v1"
	"github.com/alephium/wormhole-fork/node/pkg/vaa"
	"go.uber.org/zap"
)

type vcScenario struct {
	ID      int `json:"id"`
	OutCap  int `json:"outcap"`
	Prefill int `json:"prefill"`
	Entries int `json:"entries"`
	AgeSec  int `json:"age_s"` // how long the entries have been waiting (> 300: retry branch)
}

func vcDump() string {
	buf := make([]byte, 1<<20)
	buf = buf[:runtime.Stack(buf, true)]
	var keep []string
	for _, g := range strings.Split(string(buf), "\n\n") {
		if strings.Contains(g, "handleCleanup") {
			if len(g) > 1500 {
				g = g[:1500]
			}
			keep = append(keep, g)
		}
	}
	return strings.Join(keep, "\n\n")
}

func TestVerifCleanupPost(t *testing.T) {
	scp, trp := os.Getenv("VERIF_SCENARIOS"), os.Getenv("VERIF_TRACE")
	if scp == "" || trp == "" {
		t.Skip("VERIF_SCENARIOS / VERIF_TRACE not set")
	}
	deadline := 10 * time.Second
	if v, err := strconv.Atoi(os.Getenv("VERIF_DEADLINE_MS")); err == nil && v > 0 {
		deadline = time.Duration(v) * time.Millisecond
	}
	raw, err := os.ReadFile(scp)
	if err != nil {
		t.Fatal(err)
	}
	store, err := db.Open(t.TempDir())
	if err != nil {
		t.Fatal(err)
	}
	defer store.Close()
	tr, err := vhOpenTrace(trp)
	if err != nil {
		t.Fatal(err)
	}
	n, stalls := 0, 0
	for _, ln := range strings.Split(string(raw), "\n") {
		if strings.TrimSpace(ln) == "" {
			continue
		}
		var sc vcScenario
		if err := json.Unmarshal([]byte(ln), &sc); err != nil {
			t.Fatal(err)
		}
		if stalls >= 3 {
			break // enough evidence; every further stall costs a full deadline
		}
		n++
		outC := make(chan *gossipv1.ObservationRequest, sc.OutCap)
		fill := []interface{}{}
		for i := 0; i < sc.Prefill && i < sc.OutCap; i++ {
			tx := []byte(fmt.Sprintf("pre-%d-%d", sc.ID, i))
			outC <- &gossipv1.ObservationRequest{ChainId: 2, TxHash: tx}
			fill = append(fill, hex.EncodeToString(tx))
		}
		sendC := make(chan []byte, sc.Entries+8)
		p := &Processor{sendC: sendC, obsvReqSendC: outC, logger: zap.NewNop(), db: store,
			gs: &common.GuardianSet{}, gst: common.NewGuardianSetState(nil), state: &aggregationState{vaaSignatures: vaaMap{}}}
		waited := time.Duration(sc.AgeSec) * time.Second
		var ids []string
		for i := 0; i < sc.Entries; i++ {
			tx := []byte(fmt.Sprintf("tx-%d-%d", sc.ID, i))
			v := &vaa.VAA{Version: 1, Timestamp: time.Unix(1, 0), EmitterChain: vaa.ChainID(2 + i%3), TargetChain: 1,
				Sequence: uint64(1000*sc.ID + i), Payload: []byte{1, 2, 3}}
			v.EmitterAddress[31] = byte(7 + i)
			p.state.vaaSignatures[fmt.Sprintf("digest-%d-%d", sc.ID, i)] = &vaaState{
				firstObserved: time.Now().Add(-waited), lastRetry: time.Now().Add(-waited), ourVAA: v, settled: true,
				ourMsg: []byte{byte(i)}, txHash: tx, source: "verif", gs: p.gs}
			ids = append(ids, hex.EncodeToString(tx))
		}
		// the outbound queue of this scenario as a trace of its own: Reset, (prefill = earlier posts), the pass, drains
		tr.Emit(sc.ID, "Reset", map[string]interface{}{"caps": map[string]interface{}{}, "fill": map[string]interface{}{}, "outcap": sc.OutCap},
			map[string]interface{}{"lens": map[string]interface{}{}, "outlen": 0})
		for i, id := range fill {
			tr.Emit(sc.ID, "Post", map[string]interface{}{"id": id, "ok": true, "via": "prefill"},
				map[string]interface{}{"lens": map[string]interface{}{}, "outlen": i + 1})
		}
		done := make(chan string, 1)
		go func() {
			defer func() {
				if x := recover(); x != nil {
					done <- fmt.Sprintf("panic: %v", x)
				}
			}()
			p.handleCleanup(context.Background())
			done <- ""
		}()
		tm := time.NewTimer(deadline)
		var res string
		select {
		case res = <-done:
			tm.Stop()
		case <-tm.C:
			res = "stall"
		}
		a := map[string]interface{}{"during": "Post-cleanup", "outcap": sc.OutCap, "prefill": len(fill), "entries": sc.Entries}
		if res == "stall" {
			stalls++
			tr.Emit(sc.ID, "Stall", a, map[string]interface{}{"lens": map[string]interface{}{}, "outlen": len(outC),
				"dump": vcDump(), "deadline_ms": int(deadline / time.Millisecond)})
			continue // the goroutine stays blocked; the scenario's Processor is abandoned
		}
		if res != "" {
			tr.Emit(sc.ID, "Panic", a, map[string]interface{}{"lens": map[string]interface{}{}, "outlen": len(outC), "panic": res})
			continue
		}
		// which requests are in the queue now (after the prefill), in order
		var queued []string
		total := len(outC)
		for i := 0; i < total; i++ {
			r := <-outC
			queued = append(queued, hex.EncodeToString(r.TxHash))
		}
		posted := queued[len(fill):]
		in := map[string]bool{}
		retried := 0
		for _, s := range p.state.vaaSignatures {
			if s.retryCount > 0 {
				retried++
			}
		}
		outlen := len(fill)
		for _, id := range posted { // the posts that found room, in queue order
			in[id] = true
			outlen++
			tr.Emit(sc.ID, "Post", map[string]interface{}{"id": id, "ok": true, "via": "cleanup"},
				map[string]interface{}{"lens": map[string]interface{}{}, "outlen": outlen, "retried": retried, "rebroadcast": len(sendC)})
		}
		for i, id := range ids { // the posts that did not (entries that took the retry branch but whose request is not queued)
			if !in[id] && p.state.vaaSignatures[fmt.Sprintf("digest-%d-%d", sc.ID, i)] != nil &&
				p.state.vaaSignatures[fmt.Sprintf("digest-%d-%d", sc.ID, i)].retryCount > 0 {
				tr.Emit(sc.ID, "Post", map[string]interface{}{"id": id, "ok": false, "via": "cleanup"},
					map[string]interface{}{"lens": map[string]interface{}{}, "outlen": outlen, "retried": retried, "rebroadcast": len(sendC)})
			}
		}
		for _, id := range queued { // and the queue hands them out in order
			outlen--
			tr.Emit(sc.ID, "DrainOut", map[string]interface{}{"got": id}, map[string]interface{}{"lens": map[string]interface{}{}, "outlen": outlen})
		}
	}
	tr.Close()
	fmt.Printf("VERIF-REPLAYED cleanup-scenarios=%d stalls=%d\n", n, stalls)
}
