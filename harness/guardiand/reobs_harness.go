package PKG

// Conformance harness for C17 (re-observation request router).  Injected into package guardiand of
// /repo/node/cmd/guardiand through `go test -overlay`; nothing of it exists under /repo.
//
// It runs the REAL handleReobservationRequests in a goroutine on the benbjohnson mock clock (wrapped only
// to see the ticker it creates and the instants it reads), drives it with abstract histories
// (TLC-generated and seeded) and records one NDJSON line per step at its linearization point:
//
//   Request  the request was received by the router AND a following sentinel request (an unknown chain, 65535 unless
//            the scenario makes 65535 a watched chain; then 65533,
//            unique tx) was received too.  obsvReqC is unbuffered and the router is one goroutine, so the
//            sentinel can only be received when the router is back in its select, i.e. when the previous
//            request has been processed completely.  No sleeps are used as synchronisation.
//            With "sync":"idle" nothing is sent after the request (a sentinel would become "the previous request" of the
//            next one): the harness waits until the router goroutine is parked in its select again (waitIdle).
//   Advance  mock.Add returned, the ticker's channel is empty (the router took every tick that Add left
//            there) and a final sentinel was received (the purge body has finished).
//   Drain    the harness took one request from a watcher queue (it is the only consumer).
//   Post     PostObservationRequest / the admin SendObservationRequest returned.
//
// Liveness (never blocks): every wait has a deadline of VERIF_DEADLINE_MS (default 10 s, the code needs
// microseconds); on expiry a "Stall" line with the goroutine dump of the router is recorded and the
// scenario ends.  A panic of the router is recorded as "Panic".

import (
	"context"
	"encoding/hex"
	"encoding/json"
	"fmt"
	"os"
	"runtime"
	"strconv"
	"strings"
	"sync"
	"testing"
	"time"

	"github.com/alephium/wormhole-fork/node/pkg/common"
	gossipv1 "github.com/alephium/wormhole-fork/node/pkg/proto/gossip/v1"
	nodev1 "github.com/alephium/wormhole-fork/node/pkg/proto/node/v1"
	"github.com/alephium/wormhole-fork/node/pkg/vaa"
	"github.com/benbjohnson/clock"
	"go.uber.org/zap"
)

type vrScenario struct {
	ID  int `json:"id"`
	Cfg struct {
		Caps     map[string]int      `json:"caps"`
		Fill     map[string][]string `json:"fill"`
		OutCap   int                 `json:"outcap"`
		Unit     int                 `json:"unit"`     // seconds per time unit of the steps
		Sentinel uint32              `json:"sentinel"` // chain id of the rendezvous requests (not a known chain); 0 = 65535
	} `json:"cfg"`
	Steps []vhStep `json:"steps"`
}

// vrClock is the mock clock; it only additionally remembers the tickers created through it and the
// instants read through it.
type vrClock struct {
	*clock.Mock
	mu      sync.Mutex
	tickers []*clock.Ticker
	periods []time.Duration
	reads   int
}

func (c *vrClock) Ticker(d time.Duration) *clock.Ticker {
	t := c.Mock.Ticker(d)
	c.mu.Lock()
	c.tickers = append(c.tickers, t)
	c.periods = append(c.periods, d)
	c.mu.Unlock()
	return t
}

func (c *vrClock) Now() time.Time {
	n := c.Mock.Now()
	c.mu.Lock()
	c.reads++
	c.mu.Unlock()
	return n
}

func (c *vrClock) readCount() int {
	c.mu.Lock()
	defer c.mu.Unlock()
	return c.reads
}

func (c *vrClock) pendingTicks() int {
	c.mu.Lock()
	defer c.mu.Unlock()
	n := 0
	for _, t := range c.tickers {
		n += len(t.C)
	}
	return n
}

type vrLine struct {
	ev string
	a  map[string]interface{}
	s  map[string]interface{}
}

type vrRun struct {
	sc       *vrScenario
	clk      *vrClock
	reqC     chan *gossipv1.ObservationRequest
	chains   map[vaa.ChainID]chan *gossipv1.ObservationRequest
	names    map[string]vaa.ChainID
	outC     chan *gossipv1.ObservationRequest
	died     chan string
	gid      chan string // id of the router goroutine
	stackBuf []byte
	deadline time.Duration
	sentinel int
	lines    []vrLine
	cancel   context.CancelFunc
}

func (r *vrRun) state() map[string]interface{} {
	lens := map[string]interface{}{}
	for name, id := range r.names {
		lens[name] = len(r.chains[id])
	}
	return map[string]interface{}{"lens": lens, "outlen": len(r.outC)}
}

func (r *vrRun) log(ev string, a map[string]interface{}, extra map[string]interface{}) {
	s := r.state()
	for k, v := range extra {
		s[k] = v
	}
	r.lines = append(r.lines, vrLine{ev: ev, a: a, s: s})
}

func vrRouterDump() string {
	buf := make([]byte, 1<<20)
	buf = buf[:runtime.Stack(buf, true)]
	var keep []string
	for _, g := range strings.Split(string(buf), "\n\n") {
		if strings.Contains(g, "handleReobservationRequests") || strings.Contains(g, "PostObservationRequest") ||
			strings.Contains(g, "SendObservationRequest") {
			if len(g) > 1500 {
				g = g[:1500]
			}
			keep = append(keep, g)
		}
	}
	return strings.Join(keep, "\n\n")
}

// send delivers one request to the router; "" on success, otherwise "stall" / "panic".
func (r *vrRun) send(req *gossipv1.ObservationRequest) string {
	tm := time.NewTimer(r.deadline)
	defer tm.Stop()
	select {
	case r.reqC <- req:
		return ""
	case msg := <-r.died:
		r.died <- msg
		return "panic"
	case <-tm.C:
		return "stall"
	}
}

// rendezvous: a sentinel request for a chain no scenario knows; when the router has received it, everything
// sent before has been processed.
func (r *vrRun) sync() string {
	r.sentinel++
	tx := []byte(fmt.Sprintf("sentinel-%d-%d", r.sc.ID, r.sentinel))
	ch := r.sc.Cfg.Sentinel
	if ch == 0 {
		ch = 65535
	}
	return r.send(&gossipv1.ObservationRequest{ChainId: ch, TxHash: tx})
}

// vrGoID returns the id of the calling goroutine ("goroutine 123 [running]:").
func vrGoID() string {
	buf := make([]byte, 64)
	f := strings.Fields(string(buf[:runtime.Stack(buf, false)]))
	if len(f) < 2 {
		return ""
	}
	return f[1]
}

// waitIdle is the rendezvous that does not put anything on the request channel: it waits until the router goroutine is
// parked in a select again.  obsvReqC is unbuffered and the harness sends nothing meanwhile, the only select of the
// router that can park is the one at the top of its loop (the send to a watcher queue has a default branch), and a
// goroutine that was handed a value is runnable/running, not "select", until it parks again.  So "[select" after a
// completed send means: the request has been processed completely.  A condition that is polled, not a sleep.
func (r *vrRun) waitIdle() string {
	gid := <-r.gid
	r.gid <- gid
	if r.stackBuf == nil {
		r.stackBuf = make([]byte, 1<<20)
	}
	until := time.Now().Add(r.deadline)
	for {
		s := string(r.stackBuf[:runtime.Stack(r.stackBuf, true)])
		if i := strings.Index(s, "goroutine "+gid+" ["); i >= 0 {
			if strings.HasPrefix(s[i+len("goroutine "+gid+" ["):], "select") {
				return ""
			}
		}
		select {
		case msg := <-r.died:
			r.died <- msg
			return "panic"
		default:
		}
		if time.Now().After(until) {
			return "stall"
		}
		runtime.Gosched()
	}
}

func (r *vrRun) fail(kind string, during string, a map[string]interface{}) {
	aa := map[string]interface{}{"during": during}
	for k, v := range a {
		aa[k] = v
	}
	if kind == "panic" {
		msg := <-r.died
		r.died <- msg
		r.log("Panic", aa, map[string]interface{}{"panic": msg})
		return
	}
	r.log("Stall", aa, map[string]interface{}{"dump": vrRouterDump(), "deadline_ms": int(r.deadline / time.Millisecond)})
}

func vrParseChain(s string) uint32 {
	u, err := strconv.ParseUint(s, 10, 32)
	if err != nil {
		panic("bad chain id in scenario: " + s)
	}
	return uint32(u)
}

func vrRunScenario(sc *vrScenario, deadline time.Duration) []vrLine {
	r := &vrRun{sc: sc, deadline: deadline, names: map[string]vaa.ChainID{}, died: make(chan string, 1), gid: make(chan string, 1)}
	r.clk = &vrClock{Mock: clock.NewMock()}
	epoch := r.clk.Mock.Now()
	r.reqC = make(chan *gossipv1.ObservationRequest) // unbuffered: a completed send means the router was in its select
	r.chains = map[vaa.ChainID]chan *gossipv1.ObservationRequest{}
	fill := map[string]interface{}{}
	for name, capn := range sc.Cfg.Caps {
		id := vaa.ChainID(vrParseChain(name))
		r.names[name] = id
		ch := make(chan *gossipv1.ObservationRequest, capn)
		pre := []interface{}{}
		for _, tx := range sc.Cfg.Fill[name] {
			b, _ := hex.DecodeString(tx)
			ch <- &gossipv1.ObservationRequest{ChainId: uint32(id), TxHash: b}
			pre = append(pre, tx)
		}
		fill[name] = pre
		r.chains[id] = ch
	}
	r.outC = make(chan *gossipv1.ObservationRequest, sc.Cfg.OutCap)
	unit := sc.Cfg.Unit
	if unit <= 0 {
		unit = 1
	}
	ctx, cancel := context.WithCancel(context.Background())
	r.cancel = cancel
	defer cancel()
	go func() {
		defer func() {
			if p := recover(); p != nil {
				buf := make([]byte, 4096)
				buf = buf[:runtime.Stack(buf, false)]
				r.died <- fmt.Sprintf("%v\n%s", p, buf)
			}
		}()
		r.gid <- vrGoID()
		handleReobservationRequests(ctx, r.clk, zap.NewNop(), r.reqC, r.chains)
	}()
	caps := map[string]interface{}{}
	for k, v := range sc.Cfg.Caps {
		caps[k] = v
	}
	r.lines = append(r.lines, vrLine{ev: "Reset", a: map[string]interface{}{"caps": caps, "fill": fill, "outcap": sc.Cfg.OutCap}, s: r.state()})
	// the router creates its ticker before it enters the select: after this rendezvous the ticker exists
	if k := r.sync(); k != "" {
		r.fail(k, "start", nil)
		return r.lines
	}
	svc := &nodePrivilegedService{obsvReqSendC: r.outC, logger: zap.NewNop()}

	for _, st := range sc.Steps {
		switch st.Ev {
		case "Request":
			c := vhStr(st.A, "c")
			tx := vhStr(st.A, "tx")
			b, err := hex.DecodeString(tx)
			if err != nil {
				panic("bad tx in scenario")
			}
			a := map[string]interface{}{"c": c, "tx": tx}
			k := r.send(&gossipv1.ObservationRequest{ChainId: vrParseChain(c), TxHash: b})
			if k == "" {
				if vhStr(st.A, "sync") == "idle" {
					a["sync"] = "idle"
					k = r.waitIdle() // nothing is sent after the request: the next request really is the next one the router sees
				} else {
					k = r.sync()
				}
			}
			if k != "" {
				r.fail(k, "Request", a)
				return r.lines
			}
			r.log("Request", a, nil)
		case "Drain":
			c := vhStr(st.A, "c")
			id, ok := r.names[c]
			if !ok {
				continue
			}
			select {
			case got := <-r.chains[id]:
				r.log("Drain", map[string]interface{}{"c": c, "got": map[string]interface{}{
					"chain": strconv.FormatUint(uint64(got.ChainId), 10), "tx": hex.EncodeToString(got.TxHash)}}, nil)
			default:
				r.log("DrainEmpty", map[string]interface{}{"c": c}, nil)
			}
		case "Advance":
			dt := vhInt(st.A, "dt", 0) * unit
			mode := vhStr(st.A, "mode")
			reads0 := r.clk.readCount()
			start := r.clk.Mock.Now()
			crossed := 0
			unconsumed := false
			settle := func() string {
				// the router takes whatever tick Add left in the ticker channel; then one more sentinel
				for i := 0; ; i++ {
					if k := r.sync(); k != "" {
						return k
					}
					if r.clk.pendingTicks() == 0 {
						break
					}
					if i > 2000 {
						unconsumed = true
						break
					}
				}
				return r.sync()
			}
			k := ""
			period := 7 * time.Minute
			if len(r.clk.periods) > 0 {
				period = r.clk.periods[0]
			}
			end := start.Add(time.Duration(dt) * time.Second)
			first := epoch.Add((start.Sub(epoch)/period + 1) * period) // the ticker was created at the epoch
			for b := first; !b.After(end); b = b.Add(period) {
				crossed++
			}
			if mode == "step" {
				// as wall-clock time would pass: every tick is processed at its own instant
				for b := first; !b.After(end) && k == ""; b = b.Add(period) {
					r.clk.Mock.Add(b.Sub(r.clk.Mock.Now()))
					k = settle()
				}
				if k == "" {
					r.clk.Mock.Add(end.Sub(r.clk.Mock.Now()))
					k = settle()
				}
			} else {
				// one Add: the mock walks through the ticks while the router purges concurrently
				r.clk.Mock.Add(time.Duration(dt) * time.Second)
				k = settle()
			}
			a := map[string]interface{}{"dt": dt, "mode": mode}
			if k != "" {
				r.fail(k, "Advance", a)
				return r.lines
			}
			r.log("Advance", a, map[string]interface{}{"ticks": crossed, "clock_reads": r.clk.readCount() - reads0, "tick_unconsumed": unconsumed})
		case "Post":
			id := vhStr(st.A, "id")
			b, _ := hex.DecodeString(id)
			req := &gossipv1.ObservationRequest{ChainId: uint32(vhInt(st.A, "chain", 2)), TxHash: b}
			api := vhBool(st.A, "api")
			done := make(chan error, 1)
			go func() {
				if api {
					_, err := svc.SendObservationRequest(context.Background(), &nodev1.SendObservationRequestRequest{ObservationRequest: req})
					done <- err
				} else {
					done <- common.PostObservationRequest(r.outC, req)
				}
			}()
			a := map[string]interface{}{"id": id, "api": api}
			tm := time.NewTimer(r.deadline)
			select {
			case err := <-done:
				tm.Stop()
				a["ok"] = err == nil
				extra := map[string]interface{}{}
				if err != nil {
					extra["err"] = err.Error()
					extra["is_chan_full"] = err == common.ErrChanFull
				}
				r.log("Post", a, extra)
			case <-tm.C:
				r.fail("stall", "Post", a)
				return r.lines
			}
		case "DrainOut":
			select {
			case got := <-r.outC:
				r.log("DrainOut", map[string]interface{}{"got": hex.EncodeToString(got.TxHash)}, nil)
			default:
			}
		default:
			panic("unknown step " + st.Ev)
		}
	}
	return r.lines
}

func TestVerifReobserveReplay(t *testing.T) {
	scp, trp := os.Getenv("VERIF_SCENARIOS"), os.Getenv("VERIF_TRACE")
	if scp == "" || trp == "" {
		t.Skip("VERIF_SCENARIOS / VERIF_TRACE not set")
	}
	deadline := 10 * time.Second
	if v, err := strconv.Atoi(os.Getenv("VERIF_DEADLINE_MS")); err == nil && v > 0 {
		deadline = time.Duration(v) * time.Millisecond
	}
	par := 8
	if v, err := strconv.Atoi(os.Getenv("VERIF_PAR")); err == nil && v > 0 {
		par = v
	}
	var scs []*vrScenario
	{
		f, err := os.ReadFile(scp)
		if err != nil {
			t.Fatal(err)
		}
		for _, ln := range strings.Split(string(f), "\n") {
			if strings.TrimSpace(ln) == "" {
				continue
			}
			var s vrScenario
			if err := json.Unmarshal([]byte(ln), &s); err != nil {
				t.Fatal(err)
			}
			scs = append(scs, &s)
		}
	}
	results := make([][]vrLine, len(scs))
	var wg sync.WaitGroup
	sem := make(chan struct{}, par)
	var stalls int32
	var mu sync.Mutex
	for i := range scs {
		mu.Lock()
		tooMany := stalls >= 6
		mu.Unlock()
		if tooMany {
			break // enough evidence; every further stall would cost a full deadline
		}
		wg.Add(1)
		sem <- struct{}{}
		go func(i int) {
			defer wg.Done()
			defer func() { <-sem }()
			res := vrRunScenario(scs[i], deadline)
			results[i] = res
			if n := len(res); n > 0 && res[n-1].ev == "Stall" {
				mu.Lock()
				stalls++
				mu.Unlock()
			}
		}(i)
	}
	wg.Wait()
	tr, err := vhOpenTrace(trp)
	if err != nil {
		t.Fatal(err)
	}
	ran := 0
	for i, res := range results {
		if res == nil {
			continue
		}
		ran++
		for _, ln := range res {
			tr.Emit(scs[i].ID, ln.ev, ln.a, ln.s)
		}
	}
	tr.Close()
	fmt.Printf("VERIF-REPLAYED scenarios=%d ran=%d\n", len(scs), ran)
}
