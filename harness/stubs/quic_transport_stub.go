// Stub of github.com/libp2p/go-libp2p/p2p/transport/quic used through `go build -overlay`.
// quic-go@v0.28.1 refuses to compile with the installed Go toolchain; the guardian code only
// references NewTransport as a libp2p option, which no verification harness ever dials.
package libp2pquic

import (
	"errors"

	"github.com/libp2p/go-libp2p/core/connmgr"
	ic "github.com/libp2p/go-libp2p/core/crypto"
	"github.com/libp2p/go-libp2p/core/network"
	"github.com/libp2p/go-libp2p/core/pnet"
	tpt "github.com/libp2p/go-libp2p/core/transport"
)

func NewTransport(key ic.PrivKey, psk pnet.PSK, gater connmgr.ConnectionGater, rcmgr network.ResourceManager) (tpt.Transport, error) {
	return nil, errors.New("quic transport stubbed out for offline verification builds")
}
