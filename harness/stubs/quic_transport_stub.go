// Stand-in for github.com/libp2p/go-libp2p/p2p/transport/quic used through `go build -overlay`.
// quic-go@v0.28.1 refuses to compile with the installed Go toolchain; the guardian code only
// references NewTransport as a libp2p option.
//
// The stand-in is a *simulated network*, not a QUIC implementation: it accepts the same
// /ip4|ip6/<a>/udp/<p>/quic multiaddrs as the real transport, but carries every connection over a
// loopback TCP socket on the same port number, secured with libp2p-TLS and multiplexed with yamux through
// libp2p's own upgrader. Everything above the transport (swarm, identify, DHT, GossipSub, and the whole of
// p2p.Run) is the unmodified code, which is what the P2PLoop conformance harness needs.
package libp2pquic

import (
	"context"
	"errors"
	"fmt"
	"net"

	"github.com/libp2p/go-libp2p/core/connmgr"
	ic "github.com/libp2p/go-libp2p/core/crypto"
	"github.com/libp2p/go-libp2p/core/network"
	"github.com/libp2p/go-libp2p/core/peer"
	"github.com/libp2p/go-libp2p/core/pnet"
	tpt "github.com/libp2p/go-libp2p/core/transport"
	msmux "github.com/libp2p/go-libp2p/p2p/muxer/muxer-multistream"
	"github.com/libp2p/go-libp2p/p2p/muxer/yamux"
	csms "github.com/libp2p/go-libp2p/p2p/net/conn-security-multistream"
	tptu "github.com/libp2p/go-libp2p/p2p/net/upgrader"
	libp2ptls "github.com/libp2p/go-libp2p/p2p/security/tls"
	ma "github.com/multiformats/go-multiaddr"
	manet "github.com/multiformats/go-multiaddr/net"
)

type simTransport struct {
	up    tpt.Upgrader
	rcmgr network.ResourceManager
}

func NewTransport(key ic.PrivKey, psk pnet.PSK, gater connmgr.ConnectionGater, rcmgr network.ResourceManager) (tpt.Transport, error) {
	if len(psk) > 0 {
		return nil, errors.New("simulated quic transport: private networks are not supported")
	}
	if rcmgr == nil {
		rcmgr = network.NullResourceManager
	}
	tlsT, err := libp2ptls.New(key)
	if err != nil {
		return nil, err
	}
	sm := new(csms.SSMuxer)
	sm.AddTransport(libp2ptls.ID, tlsT)
	mm := msmux.NewBlankTransport()
	mm.AddTransport("/yamux/1.0.0", yamux.DefaultTransport)
	opts := []tptu.Option{tptu.WithResourceManager(rcmgr)}
	if gater != nil {
		opts = append(opts, tptu.WithConnectionGater(gater))
	}
	up, err := tptu.New(sm, mm, opts...)
	if err != nil {
		return nil, err
	}
	return &simTransport{up: up, rcmgr: rcmgr}, nil
}

// quicParts splits /ip4|ip6/<a>/udp/<p>/quic into network ("tcp4"/"tcp6") and host:port of the carrying socket.
func quicParts(a ma.Multiaddr) (string, string, error) {
	var ip, port, netw string
	quic := false
	ma.ForEach(a, func(c ma.Component) bool {
		switch c.Protocol().Code {
		case ma.P_IP4:
			ip, netw = c.Value(), "tcp4"
		case ma.P_IP6:
			ip, netw = c.Value(), "tcp6"
		case ma.P_UDP:
			port = c.Value()
		case ma.P_QUIC:
			quic = true
		}
		return true
	})
	if !quic || ip == "" || port == "" {
		return "", "", fmt.Errorf("simulated quic transport: not a quic address: %s", a)
	}
	return netw, net.JoinHostPort(ip, port), nil
}

func toQuicAddr(a net.Addr) ma.Multiaddr {
	t, ok := a.(*net.TCPAddr)
	if !ok {
		return nil
	}
	fam := "ip4"
	ip := t.IP
	if ip4 := ip.To4(); ip4 != nil {
		ip = ip4
	} else {
		fam = "ip6"
	}
	m, _ := ma.NewMultiaddr(fmt.Sprintf("/%s/%s/udp/%d/quic", fam, ip.String(), t.Port))
	return m
}

type simConn struct {
	net.Conn
	l, r ma.Multiaddr
}

func (c *simConn) LocalMultiaddr() ma.Multiaddr  { return c.l }
func (c *simConn) RemoteMultiaddr() ma.Multiaddr { return c.r }

type simListener struct {
	net.Listener
	addr ma.Multiaddr
}

func (l *simListener) Accept() (manet.Conn, error) {
	c, err := l.Listener.Accept()
	if err != nil {
		return nil, err
	}
	return &simConn{Conn: c, l: l.addr, r: toQuicAddr(c.RemoteAddr())}, nil
}
func (l *simListener) Multiaddr() ma.Multiaddr { return l.addr }

func (t *simTransport) Dial(ctx context.Context, raddr ma.Multiaddr, p peer.ID) (tpt.CapableConn, error) {
	netw, hp, err := quicParts(raddr)
	if err != nil {
		return nil, err
	}
	scope, err := t.rcmgr.OpenConnection(network.DirOutbound, true, raddr)
	if err != nil {
		return nil, err
	}
	if err := scope.SetPeer(p); err != nil {
		scope.Done()
		return nil, err
	}
	var d net.Dialer
	c, err := d.DialContext(ctx, netw, hp)
	if err != nil {
		scope.Done()
		return nil, err
	}
	return t.up.Upgrade(ctx, t, &simConn{Conn: c, l: toQuicAddr(c.LocalAddr()), r: raddr}, network.DirOutbound, p, scope)
}

func (t *simTransport) CanDial(a ma.Multiaddr) bool {
	_, _, err := quicParts(a)
	return err == nil
}

func (t *simTransport) Listen(laddr ma.Multiaddr) (tpt.Listener, error) {
	netw, hp, err := quicParts(laddr)
	if err != nil {
		return nil, err
	}
	l, err := net.Listen(netw, hp)
	if err != nil {
		return nil, err
	}
	addr := toQuicAddr(l.Addr())
	if addr == nil {
		l.Close()
		return nil, errors.New("simulated quic transport: unexpected listener address")
	}
	return t.up.UpgradeListener(t, &simListener{Listener: l, addr: addr}), nil
}

func (t *simTransport) Protocols() []int { return []int{ma.P_QUIC} }
func (t *simTransport) Proxy() bool      { return false }
func (t *simTransport) String() string   { return "simulated-quic-over-loopback-tcp" }
